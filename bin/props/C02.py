"""C02 — derivative and gradient evaluations are the true partial derivatives.
Proof: PsV/Props/C02.lean. Tie: bits of ndsplineeval (any bitmask) / ndsplineeval_deriv vs the model at IEEE precision;
oracle: exact derivative of the tensor-product sum (knot-difference formula applied to the Cox-de Boor spec) in Rat,
envelope K*u*S' with S' = sum |coef| prod (|a|+|b|) over the terms of every difference."""
import json, math, os
from fractions import Fraction
from . import C01 as V
from . import evalcommon as E

def proved_bound(table, prec, flagged, xs, cs, maj, cmax):
    """Right-hand side of C02_rounded_deriv_near_spec_partial / C02_gradient_rounding_envelope / C02_deriv_orders_rounding_envelope_partial
    with C01_envelope_linear: gfac eps K <= 2*K*eps (when 2*K*eps <= 1), K = 3 + ndim*(7*maxorder+3) + 2*prod(order_d+1),
    eps = u/(1-u), u = 2^-53 (double evaluator: operations and stores in double) or 2^-24 (float evaluator: operations in
    double, stores in float) -- the choice of the C01 check.  The theorem assumes no underflow/overflow; `slack` is the absolute
    allowance for underflowing stores (C01's term, amplified by the factors 2*order/min(knot difference) of the flagged
    dimensions, by which an absolute error of a lower-order basis value is multiplied).  Returns (bound_without_slack, slack) or None."""
    nd = table["ndim"]
    u = Fraction(1, 2 ** 53) if prec == "d" else Fraction(1, 2 ** 24)
    eta = Fraction(1, 2 ** 1074) if prec == "d" else Fraction(1, 2 ** 149)
    eps = u / (1 - u)
    nterms = 1; maxo = 0
    for d in table["dims"]: nterms *= d["order"] + 1; maxo = max(maxo, d["order"])
    K = 3 + nd * (7 * maxo + 3) + 2 * nterms
    if 2 * K * eps > 1: return None
    amp = Fraction(1)
    for d, f, c in zip(table["dims"], flagged, cs):
        n = d["order"]
        if f and n > 0:
            k = d["knots"]
            dmin = min(Fraction(k[c + i]) - Fraction(k[c + i - n]) for i in range(1, n + 1))
            if dmin <= 0: return None
            amp *= max(Fraction(1), 2 * n / dmin)
    return 2 * K * eps * maj, eta * nterms * (cmax + 1) * (nd + 2) * amp

def interior(table, xs, cs):
    """hypothesis AllInterior, including the monotonicity of the knots the recurrences touch (indices c-order .. c+order+1)"""
    if not V.interior(table, xs, cs): return False
    for d, c in zip(table["dims"], cs):
        k, o = d["knots"], d["order"]
        if any(not (k[j] <= k[j + 1]) for j in range(c - o, c + o + 1)): return False
    return True

def check_proved(ctx, table, c, prec, flagged, xs, cs, v, exact, maj, cmax, st, what):
    """|impl - exact derivative| <= proved envelope at an interior point (hypothesis AllInterior)."""
    if v != v or math.isinf(v) or not interior(table, xs, cs): return
    b = proved_bound(table, prec, flagged, xs, cs, maj, cmax)
    if b is None: return
    bound, slack = b
    key = "proved_lanes" if what.startswith("gradient") else "proved_cases"
    st[key] = st.get(key, 0) + 1
    if any(flagged): st[key + "_deriv"] = st.get(key + "_deriv", 0) + 1
    err = abs(Fraction(v) - exact)
    if maj > 0 and err > slack:
        st["worst_ratio_proved"] = max(st.get("worst_ratio_proved", 0.0), float(err / bound))
    if err > bound + slack:
        ctx.report("outside-proved-envelope", {"table": table, "x": xs, "centers": cs, "precision": prec, "impl": v, "exact": "%s" % exact,
                   "majorant": "%s" % maj, "case_line": c, "table_line": st.get("_table_line"),
                   "replay_cmd": "VERIF_SEED=%d python3 bin/check.py %s --tier %s" % (ctx.seed, ctx.prop, ctx.tier)},
                   "C02 proved envelope (%s): |impl - exact derivative| = %.6g exceeds 2*K*eps*majorant = %.6g (impl %.17g, exact %.17g) at an interior point" % (what, float(err), float(bound), v, float(exact)))

def proved_line(ctx, table, c, i, m, st):
    w = c.split(); nd = table["ndim"]; mw = m.split()
    if len(mw) < 6 or mw[5] == "-": return
    if w[0] == "V":
        mask = int(w[2]); flagged = [bool((mask >> d) & 1) for d in range(nd)]; rest = w[3:]
    else:
        ks = [int(z) for z in w[2:2 + nd]]
        if any(k > 1 for k in ks): return
        flagged = [k == 1 for k in ks]; rest = w[2 + nd:]
    xs = [E.dbl(z) for z in rest[:nd]]; cs = [int(z) for z in rest[nd:2 * nd]]
    spec, mag, cmax, maj = Fraction(mw[2]), Fraction(mw[3]), Fraction(mw[4]), Fraction(mw[5])
    if interior(table, xs, cs):
        st["majorant_eq_spec_magnitude"] = st.get("majorant_eq_spec_magnitude", 0) + (1 if maj == mag else 0)
        st["majorant_cases"] = st.get("majorant_cases", 0) + 1
    check_proved(ctx, table, c, w[1], flagged, xs, cs, E.dbl(i), spec, maj, cmax, st, "ndsplineeval bitmask" if w[0] == "V" else "ndsplineeval_deriv orders<=1")

def high_order_at_upper_knot(table, c):
    w = c.split()
    if w[0] != "D": return False
    nd = table["ndim"]; ks = [int(z) for z in w[2:2 + nd]]; xs = [E.dbl(z) for z in w[2 + nd:2 + 2 * nd]]
    for d, k, x in zip(table["dims"], ks, xs):
        if k >= 2:
            kn = d["knots"]; na = d["nknots"] - d["order"] - 1
            if x >= kn[na] and x in kn[na:]: return True
    return False

def line_checker(ctx, table, c, i, m, n, st):
    w = c.split(); nd = table["ndim"]
    if w[0] == "D":
        # rewrite to the V layout expected by the shared envelope code: V prec mask x.. c..
        ks = w[2:2 + nd]
        c2 = " ".join(["V", w[1], "0"] + w[2 + nd:])
        if high_order_at_upper_knot(table, c):
            st["known_cases"] += 1
            mw = m.split()
            if mw[0] != i: ctx.tie_ok = False; ctx.broken.append({"kind": "correspondence bits", "case": c[:300], "impl": i, "model": mw[0]})
            from fractions import Fraction
            if len(mw) >= 3 and abs(Fraction(E.dbl(i)) - Fraction(mw[2])) > abs(Fraction(mw[3])) * Fraction(1, 2 ** 12) if E.dbl(i) == E.dbl(i) and abs(E.dbl(i)) != float("inf") else True:
                ctx.report("deriv>=2-at-upper-knot", {"table": table, "case": c[:1000], "impl": E.dbl(i), "spec": mw[2] if len(mw) > 2 else None}, "arbitrary-order derivative (order >= 2) at a knot >= knots[naxes] uses the right-hand piece")
            return
        V.check_value_line(ctx, table, c2, i, m, n, st)
        st.setdefault("deriv_lines", 0); st["deriv_lines"] += 1
        proved_line(ctx, table, c, i, m, st)
    else:
        V.check_value_line(ctx, table, c, i, m, n, st)
        proved_line(ctx, table, c, i, m, st)

def gradient_pass(ctx, mode, st):
    """Every lane of ndsplineeval_gradient against the exact lane and the proved majorant (C02_gradient_rounding_envelope):
    a second driver run on `GX` lines made from the (distinct consecutive) G lines of the case file."""
    base = os.path.join(ctx.scratch, "C02" + mode)
    cases, impl = base + ".in", base + ".impl"
    if not (os.path.exists(cases) and os.path.exists(impl)): return
    gin, gout = base + ".gx.in", base + ".gx.model"
    todo = []; nout = 0; last = None
    with open(cases) as fc, open(impl) as fi, open(gin, "w") as fo:
        for c, i in zip(fc, fi):
            c = c.rstrip("\n"); i = i.rstrip("\n")
            if c.startswith("T "):
                fo.write(c + "\n"); todo.append(("T", c, None, nout)); nout += 1; last = None
            elif c.startswith("G "):
                key = " ".join(c.split()[2:])
                if key != last: fo.write("GX " + key + "\n"); nout += 1; last = key
                todo.append(("G", c, i, nout - 1))
    if not ctx.run_driver("EV", gin, gout):
        ctx.tie_ok = False; ctx.broken.append({"kind": "driver failed (GX)"}); return
    out = [l.strip() for l in open(gout)]
    table = None; cmax = Fraction(0)
    for kind, c, i, k in todo:
        if k >= len(out):
            ctx.tie_ok = False; ctx.broken.append({"kind": "driver output short (GX)"}); return
        m = out[k]
        if kind == "T":
            table = E.parse_table(c.split()); st["_table_line"] = c
            cmax = table_cmax(table, c)
            continue
        judge_lanes(ctx, table, c, i, m, cmax, st)

def table_cmax(table, tline):
    import struct
    cf = [struct.unpack("f", struct.pack("I", int(z)))[0] for z in tline.split()[-table["ncoef"]:]] if table["ncoef"] else []
    return max([Fraction(abs(x)) for x in cf if x == x and not math.isinf(x)] + [Fraction(0)])

def judge_lanes(ctx, table, c, i, m, cmax, st):
    """one G line: implementation lanes `i`, driver's `GX` answer `m` (exact lane, majorant pairs)"""
    if m in ("refused", "inexact", "bad-input") or i == "refused": return
    w = c.split(); nd = table["ndim"]; prec = w[1]
    xs = [E.dbl(z) for z in w[2:2 + nd]]; cs = [int(z) for z in w[2 + nd:2 + 2 * nd]]
    if any(d["order"] == 0 for d in table["dims"]): return    # hypothesis `hord` of C02_gradient_rounding_envelope
    mw = m.split(); iw = i.split()
    if len(mw) != 2 * (nd + 1) or len(iw) != nd + 1: return
    for lane in range(nd + 1):
        flagged = [lane == d + 1 for d in range(nd)]
        st["gradient_lanes_checked"] = st.get("gradient_lanes_checked", 0) + 1
        check_proved(ctx, table, c, prec, flagged, xs, cs, E.dbl(iw[lane]), Fraction(mw[2 * lane]), Fraction(mw[2 * lane + 1]), cmax, st, "gradient lane %d" % lane)

def run(ctx):
    ctx.audit()
    if ctx.tier == "quick": st, dist = V.run_profile(ctx, "C02", 150, 20, 2500, line_checker=line_checker)
    else: st, dist = V.run_profile(ctx, "C02", 600, 35, 6000, modes=("shipped", "san"), line_checker=line_checker)
    for mode in (("shipped",) if ctx.tier == "quick" else ("shipped", "san")): gradient_pass(ctx, mode, st)
    ctx.coverage["evaluations"] = st["values"] + st["lookups"]
    ctx.coverage["distinct_nontrivial"] = len(st["distinct"])
    ctx.coverage["rule"] = "profile C02 of harness/eval_harness.cpp: C01's table space (mostly non-repeated knots), random derivative bitmasks (all subsets), ndsplineeval_deriv with per-dimension derivative orders 0..order+1 (orders >= 2 only on strictly increasing knots), both precisions; non-trivial = lookup ok and value inside the envelope; distinct = distinct case lines"
    ctx.coverage["input_distribution"] = dist
    ctx.coverage["bit_exact_values"] = st["values"] - st["bit_mismatch"]
    ctx.coverage["worst_envelope_ratio"] = st["worst_ratio"]
    ctx.coverage["known_finding_cases"] = st["known_cases"]
    ctx.coverage["cases_under_rounding_theorem"] = st.get("proved_cases", 0)
    ctx.coverage["of_which_with_a_derivative"] = st.get("proved_cases_deriv", 0)
    ctx.coverage["gradient_lanes_under_rounding_theorem"] = st.get("proved_lanes", 0)
    ctx.coverage["gradient_lanes_seen"] = st.get("gradient_lanes_checked", 0)
    ctx.coverage["worst_ratio_vs_proved_bound"] = st.get("worst_ratio_proved", 0.0)
    ctx.coverage["proved_majorant_equals_spec_level_magnitude"] = "%d of %d interior cases" % (st.get("majorant_eq_spec_magnitude", 0), st.get("majorant_cases", 0))
    ctx.assumptions += ["rounding: proved for bitmask derivatives, gradient lanes and ndsplineeval_deriv with orders <= 1 at interior points without underflow/overflow (C02_rounded_deriv_near_spec_partial, C02_gradient_rounding_envelope, C02_deriv_orders_rounding_envelope_partial: |impl - exact| <= 2*K*eps*majorant, the majorant computed by the driver from the theorem's own definition; an absolute underflow allowance is added, it is not part of the theorem); margins, knots of the partially supported range and derivative orders >= 2 stay with the measured envelope (K as in C01, magnitudes with |a|+|b| per difference)", "'true derivative' = derivative of the selected polynomial piece (one-sided convention of C01)"]

def replay(ctx, path):
    st = {"values": 0, "bit_mismatch": 0, "worst_ratio": 0.0, "distinct": set(), "known_cases": 0, "lookups": 0}
    def handler(table, tw, c, i, m):
        st["_table_line"] = tw
        k = c[:1]
        if k in "VD": line_checker(ctx, table, c, i, m, 0, st)
        elif k == "S":
            bad = E.lookup_oracle(table, [E.dbl(z) for z in c.split()[1:]], i)
            if bad: ctx.report("lookup:" + bad, {"table": table, "impl": i, "table_line": tw, "case_line": c}, "lookup oracle: " + bad)
        elif k == "G":
            if i.strip() != m.strip():
                ctx.tie_ok = False; ctx.broken.append({"kind": "correspondence: gradient lanes bits != model", "case_line": c, "impl": i, "model": m})
            gin = os.path.join(ctx.scratch, "replay.gx.in"); gout = gin + ".model"
            with open(gin, "w") as f: f.write(tw.strip() + "\n" + "GX " + " ".join(c.split()[2:]) + "\n")
            if ctx.run_driver("EV", gin, gout):
                out = [l.strip() for l in open(gout)]
                if len(out) >= 2: judge_lanes(ctx, table, c, i, out[1], table_cmax(table, tw), st)
        elif (i.strip() != m.split()[0]) if m.split() else True:
            ctx.tie_ok = False; ctx.broken.append({"kind": "correspondence bits", "case_line": c, "impl": i, "model": m})
    if not E.replay_case(ctx, path, handler): run(ctx)
