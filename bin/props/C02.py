"""C02 — derivative and gradient evaluations are the true partial derivatives.
Proof: PsV/Props/C02.lean. Tie: bits of ndsplineeval (any bitmask) / ndsplineeval_deriv vs the model at IEEE precision;
oracle: exact derivative of the tensor-product sum (knot-difference formula applied to the Cox-de Boor spec) in Rat,
envelope K*u*S' with S' = sum |coef| prod (|a|+|b|) over the terms of every difference."""
import json
from . import C01 as V
from . import evalcommon as E

def high_order_at_upper_knot(table, c):
    w = c.split()
    if w[0] != "D": return False
    nd = table["ndim"]; ks = [int(z) for z in w[2:2 + nd]]; xs = [E.dbl(z) for z in w[2 + nd:2 + 2 * nd]]
    for d, k, x in zip(table["dims"], ks, xs):
        if k >= 2:
            kn = d["knots"]; na = d["nknots"] - d["order"] - 1
            if x >= kn[na] and x in kn[na:]: return True
    return False

def line_checker(ctx, table, c, i, m, n, st):
    w = c.split(); nd = table["ndim"]
    if w[0] == "D":
        # rewrite to the V layout expected by the shared envelope code: V prec mask x.. c..
        ks = w[2:2 + nd]
        c2 = " ".join(["V", w[1], "0"] + w[2 + nd:])
        if high_order_at_upper_knot(table, c):
            st["known_cases"] += 1
            mw = m.split()
            if mw[0] != i: ctx.tie_ok = False; ctx.broken.append({"kind": "correspondence bits", "case": c[:300], "impl": i, "model": mw[0]})
            from fractions import Fraction
            if len(mw) >= 3 and abs(Fraction(E.dbl(i)) - Fraction(mw[2])) > abs(Fraction(mw[3])) * Fraction(1, 2 ** 12) if E.dbl(i) == E.dbl(i) and abs(E.dbl(i)) != float("inf") else True:
                ctx.report("deriv>=2-at-upper-knot", {"table": table, "case": c[:1000], "impl": E.dbl(i), "spec": mw[2] if len(mw) > 2 else None}, "arbitrary-order derivative (order >= 2) at a knot >= knots[naxes] uses the right-hand piece")
            return
        V.check_value_line(ctx, table, c2, i, m, n, st)
        st.setdefault("deriv_lines", 0); st["deriv_lines"] += 1
    else:
        V.check_value_line(ctx, table, c, i, m, n, st)

def run(ctx):
    ctx.audit()
    if ctx.tier == "quick": st, dist = V.run_profile(ctx, "C02", 150, 20, 2500, line_checker=line_checker)
    else: st, dist = V.run_profile(ctx, "C02", 600, 35, 6000, modes=("shipped", "san"), line_checker=line_checker)
    ctx.coverage["evaluations"] = st["values"] + st["lookups"]
    ctx.coverage["distinct_nontrivial"] = len(st["distinct"])
    ctx.coverage["rule"] = "profile C02 of harness/eval_harness.cpp: C01's table space (mostly non-repeated knots), random derivative bitmasks (all subsets), ndsplineeval_deriv with per-dimension derivative orders 0..order+1 (orders >= 2 only on strictly increasing knots), both precisions; non-trivial = lookup ok and value inside the envelope; distinct = distinct case lines"
    ctx.coverage["input_distribution"] = dist
    ctx.coverage["bit_exact_values"] = st["values"] - st["bit_mismatch"]
    ctx.coverage["worst_envelope_ratio"] = st["worst_ratio"]
    ctx.coverage["known_finding_cases"] = st["known_cases"]
    ctx.assumptions += ["rounding envelope assumed (K as in C01, magnitudes with |a|+|b| per difference)", "'true derivative' = derivative of the selected polynomial piece (one-sided convention of C01)"]

def replay(ctx, path):
    V.replay(ctx, path, line_checker=line_checker)
