"""C09 — the unconstrained fit minimises the penalised weighted least-squares objective.
Proof: PsV/Props/C09.lean about PsV.objective / PsV.specM / PsV.specR (lean/PsV/Spec/Fit.lean, built from the definition)
and about the model of glam.c (lean/PsV/Model/Fit.lean): objective_as_quadratic, C09_fit_is_minimiser (via
NormalEq.normal_eq_minimises), zero_weight_irrelevant, perm_invariant, reproduces_spline / lambda0_projection,
penalty_free_data_reproduced, dividedDiffs_eq_derivCoeffs, derivCoef_one_is_derivative, glam_eq_kron_1d (if present).
Tie / oracle (harness/c09_harness.cpp calls the real splinetable::fit and splinetable_glamfit in-process; `psvdriver C09`
computes everything exactly in Rat from the same bit patterns):
  * the system assembled by the model of glam.c equals the spec's normal equations exactly (per-instance test of the n-d
    GLAM identity), M symmetric, M c* = r exactly, every elimination pivot > 0 (= SPD);
  * residual criterion on the float coefficients c^ of the real fit:  ||M c^ - r||_inf <= K 2^-24 (||M||_inf ||c^||_inf + ||r||_inf);
  * objective(c^) >= objective(c*) exactly (c* exact minimiser); ||c^ - c*||_inf reported;
  * the same criterion for the C wrapper, for a listing with permuted rows and inserted zero-weight entries;
  * spline data with lambda = 0 and polynomial data below the penalty order (every lambda): reproduced at the data points."""
import json, os, struct, sys
from fractions import Fraction
import psvlib

if hasattr(sys, "set_int_max_str_digits"): sys.set_int_max_str_digits(0)
U24 = Fraction(1, 2 ** 24)
K_RES = 2
K_REPRO = 64

def frac(s):
    a, b = s.split("/"); return Fraction(int(a), int(b))
def dbl(u): return struct.unpack("d", struct.pack("Q", int(u)))[0]

def describe(fline):
    w = fline.split(); nd = int(w[1]); p = 2; dims = []
    for _ in range(nd):
        o, nk = int(w[p]), int(w[p + 1]); dims.append({"order": o, "knots": [dbl(z) for z in w[p + 2:p + 2 + nk]]}); p += 2 + nk
    coords = []
    for _ in range(nd):
        n = int(w[p]); coords.append([dbl(z) for z in w[p + 1:p + 1 + n]]); p += 1 + n
    nr = int(w[p]); p += 1; rows = []
    for _ in range(nr):
        rows.append({"idx": [int(z) for z in w[p:p + nd]], "z": dbl(w[p + nd]), "w": dbl(w[p + nd + 1])}); p += nd + 2
    ns = int(w[p]); sm = [dbl(z) for z in w[p + 1:p + 1 + ns]]; p += 1 + ns
    npo = int(w[p]); po = [int(z) for z in w[p + 1:p + 1 + npo]]
    return {"ndim": nd, "dims": dims, "coords": coords, "rows": rows[:400], "nrows": nr, "smoothing": sm, "penalty_order": po}

def run(ctx):
    ctx.audit(extra_props=("C09b",))   # Props/C09b.lean: glam_eq_kron_1d_C09, glam_eq_kron_C09 (separate module: the proofs use Props/C17 and Props/C09)
    plan = [("shipped", 26 if ctx.tier == "quick" else 140, 0), ("san", 8 if ctx.tier == "quick" else 30, 0)]
    evals = 0; nontriv = set(); dist = {}
    worst = {"residual_ratio": 0.0, "rel_coef_diff": 0.0, "repro_ratio_spline": 0.0, "repro_ratio_poly": 0.0, "variant_vs_base_rel": 0.0, "exact_repro_star": 0.0}
    counts = {"problems": 0, "spd": 0, "not_spd_skipped": 0, "fits_judged": 0, "cwrap_same_bits": 0, "cwrap_other_bits": 0, "variants": 0,
              "spline_lambda0": 0, "poly_below_penalty": 0, "fit_failed_on_spd": 0}
    for mode, n, minorder in plan:
        exe = ctx.compile("c09_" + mode, ["c09_harness.cpp"], mode=mode, defines=["PHOTOSPLINE_INCLUDES_SPGLAM"],
                          repo_c=psvlib.FITTER_C, libs=psvlib.FITTER_LIBS)
        if not exe:
            ctx.tie_ok = False; ctx.broken.append({"kind": "harness build failed", "mode": mode}); continue
        base = os.path.join(ctx.scratch, "c09" + mode)
        cases, impl, stats, model = base + ".in", base + ".impl", base + ".stats", base + ".model"
        rc, out, err = ctx.run([exe, str(n), cases, impl, stats, ctx.tier, str(minorder)], timeout=1500, env={"OMP_NUM_THREADS": "1"})
        if rc != 0:
            ctx.tie_ok = False
            last = ""
            try: last = [l for l in open(cases).read().splitlines() if l.startswith("F ")][-1]
            except Exception: pass
            ctx.violation({"harness_rc": rc, "mode": mode, "stderr": err[-3000:], "problem": describe(last) if last else None, "case_line": last[:6000],
                           "replay_cmd": "VERIF_SEED=%d python3 bin/check.py C09 --tier %s" % (ctx.seed, ctx.tier)},
                          "fit harness (%s build, orders >= %d) %s rc=%d: %s" % (mode, minorder, "timed out" if rc == 124 else "aborted", rc, err[-500:]))
            continue
        if not ctx.driver_ok() or not ctx.run_driver("C09", cases, model):
            ctx.tie_ok = False; ctx.broken.append({"kind": "driver failed"}); continue
        if mode == "shipped": dist = json.load(open(stats))
        cur = None  # current problem state
        with open(cases) as fc, open(impl) as fi, open(model) as fm:
            for ln, (c, i, m) in enumerate(zip(fc, fi, fm), 1):
                c = c.strip(); i = i.strip(); m = m.strip()
                evals += 1
                def broke(what, **kw):
                    ctx.tie_ok = False
                    if len(ctx.broken) < 6: ctx.broken.append(dict(kind=what, mode=mode, line=ln, impl=i[:300], model=m[:600], problem=describe(cur["line"]) if cur else None, **kw))
                if c.startswith("F "):
                    counts["problems"] += 1
                    cur = {"line": c, "cls": i, "spd": False, "base": None}
                    w = m.split()
                    if w[0] == "notspd": counts["not_spd_skipped"] += 1; continue
                    if w[0] != "spd": broke("driver could not handle the problem"); cur = None; continue
                    counts["spd"] += 1
                    cur.update(spd=True, N=int(w[1]), R=int(w[2]), Mnorm=frac(w[7]), rnorm=frac(w[8]), cstar=frac(w[9]), objstar=frac(w[10]), minpivot=frac(w[11]))
                    flags = dict(z.split("=") for z in w[3:7])
                    if flags["sym"] != "1" or flags["cert"] != "1": broke("exact spec solver: M not symmetric or M c* != r")
                    if flags["glamM"] != "1" or flags["glamR"] != "1":
                        broke("the system assembled by the model of glam.c (box / slicemultiply / reshape / penalty) differs from the normal equations of the objective", flags=flags)
                    continue
                if not c.startswith("C "):
                    broke("unknown line"); continue
                if cur is None or not cur["spd"]: continue
                rep = {"problem": describe(cur["line"]), "case_line": cur["line"][:20000], "coef_line": c[:4000], "call": i, "data_class": cur["cls"], "mode": mode}
                if i.endswith("failed"):
                    counts["fit_failed_on_spd"] += 1
                    ctx.violation(rep, "the fit failed (%s) on a problem whose normal matrix is positive definite" % i); continue
                if m == "nonfinite":
                    ctx.violation(rep, "the fit returned non-finite coefficients on a problem whose normal matrix is positive definite (%s)" % i); continue
                w = m.split()
                if len(w) != 7: broke("driver output shape"); continue
                resid, cnorm, diff, objhat, mres_hat, mres_star, zmax = (frac(z) for z in w)
                counts["fits_judged"] += 1
                scale = cur["Mnorm"] * cnorm + cur["rnorm"]
                ratio = float(resid / (U24 * scale)) if scale > 0 else 0.0
                worst["residual_ratio"] = max(worst["residual_ratio"], ratio)
                if resid > K_RES * U24 * scale:
                    ctx.violation(dict(rep, residual=float(resid), scale=float(scale), ratio_in_units_of_2pow_minus24=ratio, coef_diff_to_exact=float(diff)),
                                  "coefficients returned by %s do not solve the normal equations of the stated objective to single precision: ||M c - r||_inf = %.3g > %d*2^-24*(||M|| ||c|| + ||r||) = %.3g" % (i, float(resid), K_RES, float(K_RES * U24 * scale)))
                if objhat < cur["objstar"]:
                    broke("objective(c^) < objective(exact minimiser): the exact solver or C09_fit_is_minimiser is wrong", objhat=str(objhat), objstar=str(cur["objstar"]))
                if cur["cstar"] > 0: worst["rel_coef_diff"] = max(worst["rel_coef_diff"], float(diff / cur["cstar"]))
                sc2 = max(cnorm, zmax)
                if cur["cls"] in ("spline", "poly") and sc2 > 0:
                    key = "repro_ratio_" + cur["cls"]
                    counts["spline_lambda0" if cur["cls"] == "spline" else "poly_below_penalty"] += 1
                    worst["exact_repro_star"] = max(worst["exact_repro_star"], float(mres_star / sc2))
                    rr = float(mres_hat / (U24 * sc2)); worst[key] = max(worst[key], rr)
                    if mres_star > Fraction(1, 2 ** 40) * sc2:
                        broke("the exact minimiser does not reproduce the %s data (residual %.3g): instance of reproduces_spline / penalty_free_data_reproduced fails or the generator is wrong" % (cur["cls"], float(mres_star)))
                    elif mres_hat > K_REPRO * U24 * sc2 and diff > 16 * U24 * max(cur["cstar"], cnorm):
                        # a vector that satisfies the residual criterion but is this far from the exact minimiser: the problem is
                        # ill-conditioned in double precision; reproduction is then not decidable at single precision
                        counts["ill_conditioned_reproduction_not_judged"] = counts.get("ill_conditioned_reproduction_not_judged", 0) + 1
                    elif mres_hat > K_REPRO * U24 * sc2:
                        ctx.violation(dict(rep, max_residual=float(mres_hat), scale=float(sc2)),
                                      "%s data are not reproduced by the fit (%s): max residual at the data points %.3g > %d*2^-24*%.3g" % (cur["cls"], i, float(mres_hat), K_REPRO, float(sc2)))
                cb = c.split()[2:]
                if i == "base": cur["base"] = cb
                elif i.startswith("cwrap"):
                    counts["cwrap_same_bits" if "same-bits" in i else "cwrap_other_bits"] += 1
                elif i == "variant":
                    counts["variants"] += 1
                    if cur["base"] and cnorm > 0:
                        f32 = lambda u: struct.unpack("f", struct.pack("I", int(u)))[0]
                        dv = max(abs(f32(a) - f32(b)) for a, b in zip(cb, cur["base"]))
                        worst["variant_vs_base_rel"] = max(worst["variant_vs_base_rel"], dv / float(cnorm))
                nontriv.add(cur["line"] + c)
                if len(ctx.coverage["samples"]) < 5 and i == "base":
                    d = rep["problem"]
                    ctx.coverage["samples"].append({"orders": [x["order"] for x in d["dims"]], "ncoef": cur["N"], "rows": cur["R"], "smoothing": d["smoothing"], "penalty_order": d["penalty_order"],
                                                    "class": cur["cls"], "residual_in_units_of_2^-24*scale": ratio, "max_abs_diff_to_exact_minimiser": float(diff)})
    ctx.coverage["evaluations"] = evals
    ctx.coverage["distinct_nontrivial"] = len(nontriv)
    ctx.coverage["rule"] = ("problems drawn from VERIF_SEED by harness/c09_harness.cpp; non-trivial = a coefficient vector returned by a real fit of a problem whose normal matrix "
                            "was verified positive definite exactly (all pivots > 0) and judged by the residual criterion; distinct = distinct (problem, coefficient) lines")
    ctx.coverage["input_distribution"] = dist
    ctx.coverage["counts"] = counts
    ctx.coverage["worst"] = worst
    ctx.assumptions += ["CHOLMOD / BLAS numerics are not modelled: the solve is judged by the conditioning-free residual criterion ||M c - r||_inf <= %d*2^-24*(||M||_inf ||c||_inf + ||r||_inf) (what a backward-stable solve followed by rounding to float achieves)" % K_RES,
                        "OMP_NUM_THREADS=1, verbose=false; both the shipped-flags and the sanitizer build run orders 0..4 (the zero-length VLA that order 0 used to declare in divided_diffs, glam.c:366, was repaired under C13; on a tree without that repair the sanitizer build aborts and the check reports it)",
                        "reproduction tolerance at the data points: %d*2^-24*max(||c||_inf, max|z|)" % K_REPRO,
                        "the n-d GLAM assembly identity (box / slicemultiply / reshape / Kronecker penalty chain = Kronecker normal equations) is a theorem about the model (glam_eq_kron_C09, any number of dimensions); glamM/glamR re-check it per instance (exact equality in Rat) as a regression test of the model",
                        "positive definiteness: normal_matrix_posDef_iff / _of_full_rank give the reason (full column rank of the design matrix on the positively weighted data, or a penalty that sees the kernel); that a generated instance is well-posed is decided by exact elimination (all pivots > 0), whose success is proved to imply positive definiteness (specFit_certifies_posDef)",
                        "polynomial reproduction is a theorem for every degree below the penalty order (poly_any_degree_below_penalty_reproduced: Marsden's identity; data inside the fully supported range, distinct knots - what the generator produces); the numerical reproduction test of the real fit remains",
                        "problems whose normal matrix is not positive definite (a pivot <= 0 in exact elimination) are skipped"]

def replay(ctx, path):
    r = json.load(open(path))
    print(json.dumps(r, indent=1)[:3000])
    run(ctx)
