"""C09 — the unconstrained fit minimises the penalised weighted least-squares objective.
Proof: PsV/Props/C09.lean about PsV.objective / PsV.specM / PsV.specR (lean/PsV/Spec/Fit.lean, built from the definition)
and about the model of glam.c (lean/PsV/Model/Fit.lean): objective_as_quadratic, C09_fit_is_minimiser (via
NormalEq.normal_eq_minimises), zero_weight_irrelevant, perm_invariant, reproduces_spline / lambda0_projection,
penalty_free_data_reproduced, dividedDiffs_eq_derivCoeffs, derivCoef_one_is_derivative, glam_eq_kron_1d (if present).
Tie / oracle (harness/c09_harness.cpp calls the real splinetable::fit and splinetable_glamfit in-process; `psvdriver C09`
computes everything exactly in Rat from the same bit patterns):
  * the system assembled by the model of glam.c equals the spec's normal equations exactly (per-instance test of the n-d
    GLAM identity), M symmetric, M c* = r exactly, every elimination pivot > 0 (= SPD);
  * residual criterion on the float coefficients c^ of the real fit:  ||M c^ - r||_inf <= K 2^-24 (||M||_inf ||c^||_inf + ||r||_inf);
  * objective(c^) >= objective(c*) exactly (c* exact minimiser); ||c^ - c*||_inf reported;
  * the same criterion for the C wrapper, for a listing with permuted rows and inserted zero-weight entries;
  * spline data with lambda = 0 and polynomial data below the penalty order (every lambda): reproduced at the data points.
Index arithmetic of flatten_ndarray_to_sparse in its C types (Props/C09c.lean: flatten_ctypes_exact, flatten_row_col_halves,
flatten_F_row_col, flatten_R_row, flatten_injective, flatten_unsigned_moduli_collides, flatten_int_moduli_wrong):
  * harness/c09_flatten.c #includes the real glam.c and calls the REAL static function on synthetic ndsparse arrays (few entries,
    large ranges, 1..6 dimensions = 1..12 axes, products of the ranges below / at / above 2^32); the cholmod_sparse it returns is
    read back as triplets; `psvdriver C09` (line kind L) computes (row, col) of every entry with PsV.flattenC (long moduli,
    unsigned ranges, size_t ncol); compared exactly; independently of the model the property-level oracle (Python big-int mixed
    radix of the two halves of the index tuple) is evaluated and a wrong placement is reported with a replay.
Large problems: real fits with more than 65536 coefficients of bilinear data (penalty order 2, smoothing > 0), judged by reproduction
at the data points only (poly_any_degree_below_penalty_reproduced; the exact Rat solve is far too expensive there).
Scale equivariance (Props/C09c.lean: objective_scales, normal_system_scales, C09_scale_equivariant,
C09_scaled_solution_is_unique_minimiser): real fits on (w, lambda) and (s w, s lambda), s = 2^-60 .. 2^40, must return the same
coefficients (measured: bit for bit)."""
import json, os, re, struct, sys
from fractions import Fraction
import psvlib

if hasattr(sys, "set_int_max_str_digits"): sys.set_int_max_str_digits(0)
U24 = Fraction(1, 2 ** 24)
K_RES = 2
K_REPRO = 64
K_SCALE = 4     # scale equivariance: measured difference is 0 (bit for bit, 22 000 comparisons); anything above 4*2^-24*max|c| is a violation

def frac(s):
    a, b = s.split("/"); return Fraction(int(a), int(b))
def dbl(u): return struct.unpack("d", struct.pack("Q", int(u)))[0]

def describe(fline):
    w = fline.split(); nd = int(w[1]); p = 2; dims = []
    for _ in range(nd):
        o, nk = int(w[p]), int(w[p + 1]); dims.append({"order": o, "knots": [dbl(z) for z in w[p + 2:p + 2 + nk]]}); p += 2 + nk
    coords = []
    for _ in range(nd):
        n = int(w[p]); coords.append([dbl(z) for z in w[p + 1:p + 1 + n]]); p += 1 + n
    nr = int(w[p]); p += 1; rows = []
    for _ in range(nr):
        rows.append({"idx": [int(z) for z in w[p:p + nd]], "z": dbl(w[p + nd]), "w": dbl(w[p + nd + 1])}); p += nd + 2
    ns = int(w[p]); sm = [dbl(z) for z in w[p + 1:p + 1 + ns]]; p += 1 + ns
    npo = int(w[p]); po = [int(z) for z in w[p + 1:p + 1 + npo]]
    return {"ndim": nd, "dims": dims, "coords": coords, "rows": rows[:400], "nrows": nr, "smoothing": sm, "penalty_order": po}

def jload(ctx, line, what):
    """one JSON line of harness/c09_streams.cpp (C prints non-finite doubles as nan / inf)"""
    t = re.sub(r"(?<![\w\"])-?nan\b", "NaN", line)
    t = re.sub(r"(?<![\w\"-])inf\b", "Infinity", t)
    t = re.sub(r"(?<![\w\"])-inf\b", "-Infinity", t)
    try: return json.loads(t)
    except Exception as ex:
        ctx.tie_ok = False
        if len(ctx.broken) < 6: ctx.broken.append({"kind": "unreadable line from the %s stream" % what, "line": line[:400], "error": str(ex)})
        return None

def mixed_radix(ranges, idx):
    k = 0
    for r, i in zip(ranges, idx): k = k * r + i
    return k

def flatten_stream(ctx, counts, worst, nontriv, dist):
    """flatten_ndarray_to_sparse: real routine vs PsV.flattenC (exactly) vs the big-int mixed-radix oracle."""
    evals = 0
    others = [c for c in psvlib.FITTER_C if not c.endswith("glam.c")]
    src = os.path.join(psvlib.VERIF, "harness", "c09_flatten.c")
    for mode in ("shipped", "san"):
        exe = ctx.compile("c09flat_" + mode, [], mode=mode, defines=["PHOTOSPLINE_INCLUDES_SPGLAM"], repo_cpp=[],
                          repo_c=[src] + others, libs=psvlib.FITTER_LIBS, extra=["-I" + psvlib.REPO])
        if not exe:
            ctx.tie_ok = False; ctx.broken.append({"kind": "flatten harness build failed", "mode": mode}); continue
        base = os.path.join(ctx.scratch, "c09flat" + mode)
        cases, impl, stats, model = base + ".in", base + ".impl", base + ".stats", base + ".model"
        nrand = (300 if ctx.tier == "quick" else 3000) if mode == "shipped" else (100 if ctx.tier == "quick" else 600)
        rc, out, err = ctx.run([exe, str(nrand), cases, impl, stats], timeout=900, env={"OMP_NUM_THREADS": "1"})
        if rc != 0:
            last = ""
            try: last = open(cases).read().splitlines()[-1]
            except Exception: pass
            ctx.violation({"harness_rc": rc, "mode": mode, "stderr": err[-3000:], "case_line": last[:4000],
                           "replay_cmd": "VERIF_SEED=%d python3 bin/check.py C09 --tier %s" % (ctx.seed, ctx.tier)},
                          "flatten_ndarray_to_sparse harness (%s build) %s rc=%d on the last listed case: %s" % (mode, "timed out" if rc == 124 else "aborted", rc, err[-400:]))
            ctx.tie_ok = False; continue
        if not ctx.driver_ok() or not ctx.run_driver("C09", cases, model):
            ctx.tie_ok = False; ctx.broken.append({"kind": "driver failed (flatten)"}); continue
        if mode == "shipped": dist["flatten_ndarray_to_sparse"] = json.load(open(stats))
        with open(cases) as fc, open(impl) as fi, open(model) as fm:
            for ln, (c, i, m) in enumerate(zip(fc, fi, fm), 1):
                evals += 1; counts["flatten_cases"] += 1
                w = c.split(); nd = int(w[1]); ranges = [int(z) for z in w[2:2 + nd]]; ncol = int(w[2 + nd]); ne = int(w[3 + nd])
                flat = [int(z) for z in w[4 + nd:]]; tuples = [flat[e * nd:(e + 1) * nd] for e in range(ne)]
                split = nd if ncol == 1 else nd // 2
                prod = 1
                for r in ranges: prod *= r
                if prod > 2 ** 32: counts["flatten_cases_above_2^32_cells"] += 1
                # property-level oracle: row / column = mixed-radix numbers of the two halves of the index tuple
                want_cell = [(mixed_radix(ranges[:split], t[:split]), mixed_radix(ranges[split:], t[split:])) for t in tuples]
                want = {}
                for e, cell in enumerate(want_cell): want[cell] = want.get(cell, 0) + 2 ** (e % 48)
                nrow_want = 1
                for r in ranges[:split]: nrow_want *= r
                def broke(what, **kw):
                    ctx.tie_ok = False
                    if len(ctx.broken) < 6: ctx.broken.append(dict(kind=what, mode=mode, line=ln, case=c.strip()[:600], impl=i.strip()[:400], model=m.strip()[:400], **kw))
                # the C-typed model
                mw = m.split()
                model_cell = None
                if mw[:1] == ["ok"] and len(mw) == 2 + 2 * ne:
                    if mw[1] != "pre=1": broke("generated flatten case outside the hypotheses of flatten_ctypes_exact")
                    model_cell = [(int(mw[2 + 2 * e]), int(mw[3 + 2 * e])) for e in range(ne)]
                    if model_cell != want_cell:
                        broke("PsV.flattenC differs from the mixed-radix oracle (contradicts flatten_row_col_halves)")
                else: broke("driver could not handle the flatten case")
                # the real routine
                iw = i.split()
                got = None
                if iw[:1] == ["T"]:
                    nnz = int(iw[3]); got = {}
                    for q in range(nnz):
                        r_, c_, v = int(iw[4 + 3 * q]), int(iw[5 + 3 * q]), dbl(iw[6 + 3 * q])
                        got[(r_, c_)] = got.get((r_, c_), 0) + int(v)
                if got != want:
                    e_bad, where = None, None
                    for e, cell in enumerate(want_cell):
                        if got is None or not (got.get(cell, 0) >> (e % 48)) & 1:
                            e_bad = e
                            where = [list(k) for k, v in (got or {}).items() if (v >> (e % 48)) & 1]
                            break
                    rep = {"function": "flatten_ndarray_to_sparse (src/fitter/glam.c)", "ranges": ranges, "nrow": nrow_want, "ncol": ncol, "ndim": nd,
                           "cells_in_the_array": prod, "entries": tuples, "values": "entry e carries 2^e", "mode": mode,
                           "failing_entry": e_bad, "indices": tuples[e_bad] if e_bad is not None else None,
                           "expected_row_col": list(want_cell[e_bad]) if e_bad is not None else None, "obtained_row_col": where if got is not None else "routine returned NULL: " + i.strip(),
                           "true_flattened_position": mixed_radix(ranges, tuples[e_bad]) if e_bad is not None else None,
                           "returned_triplets": i.strip()[:1500], "case_line": c.strip()[:3000]}
                    counts["flatten_wrong"] += 1
                    if counts["flatten_wrong"] > 3: ctx.violations += 1     # counted; the first three carry the replays
                    else: ctx.report("flatten_ndarray_to_sparse:wrong-cell", rep,
                               "flatten_ndarray_to_sparse puts the entry with indices %s of an array with ranges %s (%d cells%s) at (row, col) = %s instead of %s: the normal matrix of a fit with %d coefficients is assembled wrongly"
                               % (rep["indices"], ranges, prod, ", more than 2^32" if prod > 2 ** 32 else "", rep["obtained_row_col"], rep["expected_row_col"], nrow_want))
                if model_cell is not None and got is not None:
                    mg = {}
                    for e, cell in enumerate(model_cell): mg[cell] = mg.get(cell, 0) + 2 ** (e % 48)
                    if mg != got: broke("the real flatten_ndarray_to_sparse and the C-typed model PsV.flattenC disagree")
                    elif got == want: nontriv.add(c)
    return evals

def streams(ctx, counts, worst, nontriv, dist):
    """large fits (reproduction only) and scale equivariance, both on the real splinetable::fit"""
    evals = 0
    exe = ctx.compile("c09_streams", ["c09_streams.cpp"], mode="shipped", defines=["PHOTOSPLINE_INCLUDES_SPGLAM"],
                      repo_c=psvlib.FITTER_C, libs=psvlib.FITTER_LIBS)
    if not exe:
        ctx.tie_ok = False; ctx.broken.append({"kind": "streams harness build failed"}); return 0
    # ---- large
    outp = os.path.join(ctx.scratch, "c09large.jsonl")
    nlarge = 3 if ctx.tier == "quick" else 9
    rc, out, err = ctx.run([exe, "large", str(nlarge), outp, ctx.tier], timeout=1500, env={"OMP_NUM_THREADS": "1"})
    lines = []
    try: lines = open(outp).read().splitlines()
    except Exception: pass
    if rc != 0:
        ctx.violation({"harness_rc": rc, "stderr": err[-3000:], "last_problem": lines[-1][:6000] if lines else None,
                       "replay_cmd": "VERIF_SEED=%d python3 bin/check.py C09 --tier %s" % (ctx.seed, ctx.tier)},
                      "large-fit harness %s rc=%d: %s" % ("timed out" if rc == 124 else "aborted", rc, err[-400:]))
        lines = lines[:-1]
    dl = dist.setdefault("large_fits", {"shapes": [], "smoothing": [], "seconds": []})
    for l in lines:
        d = jload(ctx, l, "large-fit")
        if d is None: continue
        evals += 1; counts["large_fits"] += 1
        dl["shapes"].append("x".join(str(z) for z in d["ncoef_per_dim"]) + " order %d" % d["order"]); dl["smoothing"].append(d["smoothing"]); dl["seconds"].append(d.get("seconds"))
        rep = dict(d); rep["data"] = "z = prod_d (poly_const[d] + poly_slope[d]*x_d) on the full grid coords_0 x coords_1 (x ...), penalty order 2, one smoothing value for all dimensions"
        if d["ncoef"] <= 65536: ctx.tie_ok = False; ctx.broken.append({"kind": "large stream generated a small problem", "ncoef": d["ncoef"]})
        if d.get("status") != "ok":
            ctx.violation(rep, "the fit of a well-posed problem with %d coefficients (dense data, smoothing %g > 0) %s" % (d["ncoef"], d["smoothing"], "failed: " + str(d.get("error")) if d.get("status") == "failed" else "returned " + str(d.get("status"))))
            continue
        sc = max(d["max_abs_coefficient"], d["max_abs_datum"])
        ratio = d["max_residual"] / (2.0 ** -24 * sc) if sc > 0 else 0.0
        if ratio == ratio: worst["large_repro_ratio"] = max(worst["large_repro_ratio"], ratio)
        if not ratio <= K_REPRO:
            ctx.violation(rep, "a fit with %d coefficients (%s, order %d, smoothing %g) does not reproduce data that are a polynomial of degree below the penalty order: max residual at the data points %.3g (fit %.6g, datum %.6g at grid point %s; %d points off by more than 1e-4) > %d*2^-24*%.3g"
                          % (d["ncoef"], " x ".join(str(z) for z in d["ncoef_per_dim"]), d["order"], d["smoothing"], d["max_residual"], d["fit_at_worst"], d["datum_at_worst"], d["worst_point"], d["points_off_by_1e-4"], K_REPRO, sc))
        else:
            nontriv.add(l[:3000])
    # ---- scale equivariance
    outp = os.path.join(ctx.scratch, "c09scale.jsonl")
    nscale = 150 if ctx.tier == "quick" else 1500
    rc, out, err = ctx.run([exe, "scale", str(nscale), outp, ctx.tier], timeout=900, env={"OMP_NUM_THREADS": "1"})
    lines = []
    try: lines = open(outp).read().splitlines()
    except Exception: pass
    if rc != 0:
        ctx.violation({"harness_rc": rc, "stderr": err[-3000:], "last_problem": lines[-1][:6000] if lines else None,
                       "replay_cmd": "VERIF_SEED=%d python3 bin/check.py C09 --tier %s" % (ctx.seed, ctx.tier)},
                      "scale-equivariance harness %s rc=%d: %s" % ("timed out" if rc == 124 else "aborted", rc, err[-400:]))
        lines = lines[:-1]
    ds = dist.setdefault("scale_equivariance", {"ndim": {}, "weight_style(0 1e-3..1e3, 1 all one, 2 times 1e-18, 3 times 1e12)": {}, "missing_cell_problems": 0, "smoothing_below_DBL_EPSILON_after_scaling": 0})
    for l in lines:
        d = jload(ctx, l, "scale-equivariance")
        if d is None: continue
        evals += 1; counts["scale_problems"] += 1
        ds["ndim"][str(d["ndim"])] = ds["ndim"].get(str(d["ndim"]), 0) + 1
        k2 = "weight_style(0 1e-3..1e3, 1 all one, 2 times 1e-18, 3 times 1e12)"; ds[k2][str(d["weight_style"])] = ds[k2].get(str(d["weight_style"]), 0) + 1
        if d["missing_pct"] > 0: ds["missing_cell_problems"] += 1
        if d.get("base") != "ok":
            counts["scale_base_fit_failed_skipped"] += 1; continue
        cmax = d["max_abs_coefficient"]
        for r in d["results"]:
            counts["scale_comparisons"] += 1
            if any(0 < z < 2.220446049250313e-16 for z in r["scaled_smoothing"]): ds["smoothing_below_DBL_EPSILON_after_scaling"] += 1
            rep = {"problem": describe(d["case_line"]), "case_line": d["case_line"][:20000], "smoothing": d["smoothing"], "scale": "2^%d" % r["log2_s"],
                   "scaled_smoothing": r["scaled_smoothing"], "weights_scaled_by": "2^%d (exact)" % r["log2_s"], "result": r, "max_abs_coefficient_of_base_fit": cmax}
            if r["status"] != "ok":
                ctx.violation(rep, "the fit succeeds on (w, lambda) but %s on (s*w, s*lambda), s = 2^%d: the minimiser does not depend on a common factor of weights and smoothing" % ("fails" if r["status"] == "failed" else "returns " + r["status"], r["log2_s"]))
                continue
            if r["coefficients_differing"] == 0:
                counts["scale_bit_identical"] += 1; nontriv.add(l[:200] + str(r["log2_s"])); continue
            rel = r["max_abs_diff"] / cmax if cmax > 0 else float("inf")
            if rel == rel: worst["scale_rel_diff"] = max(worst["scale_rel_diff"], rel)
            if not rel <= K_SCALE * 2.0 ** -24:
                ctx.violation(rep, "fit(w, lambda) and fit(s*w, s*lambda) with s = 2^%d (smoothing %s -> %s) return different coefficients: %d differ, max difference %.3g (coefficient %d: %.9g vs %.9g; max |c| = %.3g) - the objective is merely multiplied by s, the minimiser is the same"
                              % (r["log2_s"], d["smoothing"], r["scaled_smoothing"], r["coefficients_differing"], r["max_abs_diff"], r["at"], r["base_there"], r["scaled_there"], cmax))
            else:
                counts["scale_differs_within_tolerance"] += 1
    return evals

def run(ctx):
    ctx.audit(extra_props=("C09b", "C09c"))   # Props/C09b.lean: glam_eq_kron_1d_C09, glam_eq_kron_C09 (separate module: the proofs use Props/C17 and Props/C09); Props/C09c.lean: C-typed flatten_ndarray_to_sparse, scale equivariance
    plan = [("shipped", 26 if ctx.tier == "quick" else 140, 0), ("san", 8 if ctx.tier == "quick" else 30, 0)]
    evals = 0; nontriv = set(); dist = {}
    worst = {"large_repro_ratio": 0.0, "scale_rel_diff": 0.0, "residual_ratio": 0.0, "rel_coef_diff": 0.0, "repro_ratio_spline": 0.0, "repro_ratio_poly": 0.0, "variant_vs_base_rel": 0.0, "exact_repro_star": 0.0}
    counts = {"problems": 0, "spd": 0, "not_spd_skipped": 0, "fits_judged": 0, "cwrap_same_bits": 0, "cwrap_other_bits": 0, "variants": 0,
              "spline_lambda0": 0, "poly_below_penalty": 0, "fit_failed_on_spd": 0,
              "flatten_cases": 0, "flatten_cases_above_2^32_cells": 0, "flatten_wrong": 0, "large_fits": 0, "scale_problems": 0, "scale_comparisons": 0,
              "scale_bit_identical": 0, "scale_differs_within_tolerance": 0, "scale_base_fit_failed_skipped": 0}
    for mode, n, minorder in plan:
        exe = ctx.compile("c09_" + mode, ["c09_harness.cpp"], mode=mode, defines=["PHOTOSPLINE_INCLUDES_SPGLAM"],
                          repo_c=psvlib.FITTER_C, libs=psvlib.FITTER_LIBS)
        if not exe:
            ctx.tie_ok = False; ctx.broken.append({"kind": "harness build failed", "mode": mode}); continue
        base = os.path.join(ctx.scratch, "c09" + mode)
        cases, impl, stats, model = base + ".in", base + ".impl", base + ".stats", base + ".model"
        rc, out, err = ctx.run([exe, str(n), cases, impl, stats, ctx.tier, str(minorder)], timeout=1500, env={"OMP_NUM_THREADS": "1"})
        if rc != 0:
            ctx.tie_ok = False
            last = ""
            try: last = [l for l in open(cases).read().splitlines() if l.startswith("F ")][-1]
            except Exception: pass
            ctx.violation({"harness_rc": rc, "mode": mode, "stderr": err[-3000:], "problem": describe(last) if last else None, "case_line": last[:6000],
                           "replay_cmd": "VERIF_SEED=%d python3 bin/check.py C09 --tier %s" % (ctx.seed, ctx.tier)},
                          "fit harness (%s build, orders >= %d) %s rc=%d: %s" % (mode, minorder, "timed out" if rc == 124 else "aborted", rc, err[-500:]))
            continue
        if not ctx.driver_ok() or not ctx.run_driver("C09", cases, model):
            ctx.tie_ok = False; ctx.broken.append({"kind": "driver failed"}); continue
        if mode == "shipped": dist = json.load(open(stats))
        cur = None  # current problem state
        with open(cases) as fc, open(impl) as fi, open(model) as fm:
            for ln, (c, i, m) in enumerate(zip(fc, fi, fm), 1):
                c = c.strip(); i = i.strip(); m = m.strip()
                evals += 1
                def broke(what, **kw):
                    ctx.tie_ok = False
                    if len(ctx.broken) < 6: ctx.broken.append(dict(kind=what, mode=mode, line=ln, impl=i[:300], model=m[:600], problem=describe(cur["line"]) if cur else None, **kw))
                if c.startswith("F "):
                    counts["problems"] += 1
                    cur = {"line": c, "cls": i, "spd": False, "base": None}
                    w = m.split()
                    if w[0] == "notspd": counts["not_spd_skipped"] += 1; continue
                    if w[0] != "spd": broke("driver could not handle the problem"); cur = None; continue
                    counts["spd"] += 1
                    cur.update(spd=True, N=int(w[1]), R=int(w[2]), Mnorm=frac(w[7]), rnorm=frac(w[8]), cstar=frac(w[9]), objstar=frac(w[10]), minpivot=frac(w[11]))
                    flags = dict(z.split("=") for z in w[3:7])
                    if flags["sym"] != "1" or flags["cert"] != "1": broke("exact spec solver: M not symmetric or M c* != r")
                    if flags["glamM"] != "1" or flags["glamR"] != "1":
                        broke("the system assembled by the model of glam.c (box / slicemultiply / reshape / penalty) differs from the normal equations of the objective", flags=flags)
                    continue
                if not c.startswith("C "):
                    broke("unknown line"); continue
                if cur is None or not cur["spd"]: continue
                rep = {"problem": describe(cur["line"]), "case_line": cur["line"][:20000], "coef_line": c[:4000], "call": i, "data_class": cur["cls"], "mode": mode}
                if i.endswith("failed"):
                    counts["fit_failed_on_spd"] += 1
                    ctx.violation(rep, "the fit failed (%s) on a problem whose normal matrix is positive definite" % i); continue
                if m == "nonfinite":
                    ctx.violation(rep, "the fit returned non-finite coefficients on a problem whose normal matrix is positive definite (%s)" % i); continue
                w = m.split()
                if len(w) != 7: broke("driver output shape"); continue
                resid, cnorm, diff, objhat, mres_hat, mres_star, zmax = (frac(z) for z in w)
                counts["fits_judged"] += 1
                scale = cur["Mnorm"] * cnorm + cur["rnorm"]
                ratio = float(resid / (U24 * scale)) if scale > 0 else 0.0
                worst["residual_ratio"] = max(worst["residual_ratio"], ratio)
                if resid > K_RES * U24 * scale:
                    ctx.violation(dict(rep, residual=float(resid), scale=float(scale), ratio_in_units_of_2pow_minus24=ratio, coef_diff_to_exact=float(diff)),
                                  "coefficients returned by %s do not solve the normal equations of the stated objective to single precision: ||M c - r||_inf = %.3g > %d*2^-24*(||M|| ||c|| + ||r||) = %.3g" % (i, float(resid), K_RES, float(K_RES * U24 * scale)))
                if objhat < cur["objstar"]:
                    broke("objective(c^) < objective(exact minimiser): the exact solver or C09_fit_is_minimiser is wrong", objhat=str(objhat), objstar=str(cur["objstar"]))
                if cur["cstar"] > 0: worst["rel_coef_diff"] = max(worst["rel_coef_diff"], float(diff / cur["cstar"]))
                sc2 = max(cnorm, zmax)
                if cur["cls"] in ("spline", "poly") and sc2 > 0:
                    key = "repro_ratio_" + cur["cls"]
                    counts["spline_lambda0" if cur["cls"] == "spline" else "poly_below_penalty"] += 1
                    worst["exact_repro_star"] = max(worst["exact_repro_star"], float(mres_star / sc2))
                    rr = float(mres_hat / (U24 * sc2)); worst[key] = max(worst[key], rr)
                    if mres_star > Fraction(1, 2 ** 40) * sc2:
                        broke("the exact minimiser does not reproduce the %s data (residual %.3g): instance of reproduces_spline / penalty_free_data_reproduced fails or the generator is wrong" % (cur["cls"], float(mres_star)))
                    elif mres_hat > K_REPRO * U24 * sc2 and diff > 16 * U24 * max(cur["cstar"], cnorm):
                        # a vector that satisfies the residual criterion but is this far from the exact minimiser: the problem is
                        # ill-conditioned in double precision; reproduction is then not decidable at single precision
                        counts["ill_conditioned_reproduction_not_judged"] = counts.get("ill_conditioned_reproduction_not_judged", 0) + 1
                    elif mres_hat > K_REPRO * U24 * sc2:
                        ctx.violation(dict(rep, max_residual=float(mres_hat), scale=float(sc2)),
                                      "%s data are not reproduced by the fit (%s): max residual at the data points %.3g > %d*2^-24*%.3g" % (cur["cls"], i, float(mres_hat), K_REPRO, float(sc2)))
                cb = c.split()[2:]
                if i == "base": cur["base"] = cb
                elif i.startswith("cwrap"):
                    counts["cwrap_same_bits" if "same-bits" in i else "cwrap_other_bits"] += 1
                elif i == "variant":
                    counts["variants"] += 1
                    if cur["base"] and cnorm > 0:
                        f32 = lambda u: struct.unpack("f", struct.pack("I", int(u)))[0]
                        dv = max(abs(f32(a) - f32(b)) for a, b in zip(cb, cur["base"]))
                        worst["variant_vs_base_rel"] = max(worst["variant_vs_base_rel"], dv / float(cnorm))
                nontriv.add(cur["line"] + c)
                if len(ctx.coverage["samples"]) < 5 and i == "base":
                    d = rep["problem"]
                    ctx.coverage["samples"].append({"orders": [x["order"] for x in d["dims"]], "ncoef": cur["N"], "rows": cur["R"], "smoothing": d["smoothing"], "penalty_order": d["penalty_order"],
                                                    "class": cur["cls"], "residual_in_units_of_2^-24*scale": ratio, "max_abs_diff_to_exact_minimiser": float(diff)})
    evals += flatten_stream(ctx, counts, worst, nontriv, dist)
    evals += streams(ctx, counts, worst, nontriv, dist)
    ctx.coverage["evaluations"] = evals
    ctx.coverage["distinct_nontrivial"] = len(nontriv)
    ctx.coverage["rule"] = ("problems drawn from VERIF_SEED by harness/c09_harness.cpp; non-trivial = a coefficient vector returned by a real fit of a problem whose normal matrix "
                            "was verified positive definite exactly (all pivots > 0) and judged by the residual criterion; distinct = distinct (problem, coefficient) lines; "
                            "plus every distinct flatten_ndarray_to_sparse case on which the real routine, PsV.flattenC and the big-int oracle agree, every large fit (> 65536 coefficients) "
                            "that reproduces its bilinear data, and every (problem, scale) pair whose coefficients are bit-identical to the unscaled fit")
    ctx.coverage["input_distribution"] = dist
    ctx.coverage["counts"] = counts
    ctx.coverage["worst"] = worst
    ctx.assumptions += ["CHOLMOD / BLAS numerics are not modelled: the solve is judged by the conditioning-free residual criterion ||M c - r||_inf <= %d*2^-24*(||M||_inf ||c||_inf + ||r||_inf) (what a backward-stable solve followed by rounding to float achieves)" % K_RES,
                        "OMP_NUM_THREADS=1, verbose=false; both the shipped-flags and the sanitizer build run orders 0..4 (the zero-length VLA that order 0 used to declare in divided_diffs, glam.c:366, was repaired under C13; on a tree without that repair the sanitizer build aborts and the check reports it)",
                        "reproduction tolerance at the data points: %d*2^-24*max(||c||_inf, max|z|)" % K_REPRO,
                        "the n-d GLAM assembly identity (box / slicemultiply / reshape / Kronecker penalty chain = Kronecker normal equations) is a theorem about the model (glam_eq_kron_C09, any number of dimensions); glamM/glamR re-check it per instance (exact equality in Rat) as a regression test of the model",
                        "positive definiteness: normal_matrix_posDef_iff / _of_full_rank give the reason (full column rank of the design matrix on the positively weighted data, or a penalty that sees the kernel); that a generated instance is well-posed is decided by exact elimination (all pivots > 0), whose success is proved to imply positive definiteness (specFit_certifies_posDef)",
                        "polynomial reproduction is a theorem for every degree below the penalty order (poly_any_degree_below_penalty_reproduced: Marsden's identity; data inside the fully supported range, distinct knots - what the generator produces); the numerical reproduction test of the real fit remains",
                        "problems whose normal matrix is not positive definite (a pivot <= 0 in exact elimination) are skipped",
                        "flatten_ndarray_to_sparse is exercised directly (harness/c09_flatten.c includes the tree's glam.c) on synthetic arrays with Pi ranges < 2^63 in the two shapes glam.c uses (F: axes n,n with ncol = Pi n; R: ncol = 1); larger products are outside flatten_ctypes_exact (signed overflow of long) and are not generated",
                        "fits with more than 65536 coefficients (normal matrix with more than 2^32 cells) are judged ONLY by reproduction of bilinear data at the data points (tolerance %d*2^-24*max(||c||_inf, max|z|), smoothing in {1e-3, 0.1, 0.5, 2}, own Cox-de Boor evaluation): the exact Rat oracle is infeasible there; the residual criterion and the exact minimiser are checked only up to 40 (quick) / 120 (thorough) unknowns" % K_REPRO,
                        "scale equivariance: s is a power of 4 (2^-60 .. 2^40), so every product and the Cholesky factor scale exactly; measured on the unchanged tree: all coefficients bit-identical; tolerated: %d*2^-24*max|c|; base fits that fail are skipped (none observed)" % K_SCALE]

def replay(ctx, path):
    r = json.load(open(path))
    print(json.dumps(r, indent=1)[:3000])
    run(ctx)
