"""C13 — fit rejects inconsistent arguments instead of corrupting memory.

Proof: PsV/Props/C13.lean — checks_imply_needs, needs_imply_checks, needs_imply_safe, checks_never_fault,
fit_never_faults, reject_leaves_unchanged, changed_only_after_checks, inconsistent_rejected,
cwrapper_nonzero_iff_reject, cwrapper_reject_unchanged (about the repaired check block, fixes/C13-1..6), the
decided witnesses asIs_* of each missing check in the upstream code; integer widths: noWrap_imply_sizesFit,
needs_noWrap_imply_safeW, basis_clause_necessary, head_basis_counter_overflows, head_ncoeffs_wraps; whole member function:
entry_occupied_refused, entry_failure_leaves_unchanged, entry_never_faults, entry_ok_iff,
entry_solver_failure_leaves_empty, entry_inconsistent_rejected, entry_upstream_eq_fit, cwrapperEntry_*.
Tie: harness/fit_harness.cpp runs the real splinetable<>::fit and splinetable_glamfit (ASan+UBSan build of the working
tree, one forked child per case) on points of the cross product valid x invalid of every argument; `psvdriver C13` runs
PsV.Fit.fit / cGlamfit on the same lines; verdict (success + table shape | which exception, which dimension) must be equal.
Oracle (independent of the model): the property statement itself, re-implemented here in `consistent()`."""
import json, os, struct, collections

HARNESS_KW = dict(mode="san", defines=["PHOTOSPLINE_INCLUDES_SPGLAM"])
ARG_ERRORS = {"weights", "noDims", "noData", "indexRange", "ncoords", "coordLen", "norders", "nknotvecs", "unsorted",
              "fewKnots", "nsmooth", "npenalty", "penaltyOrder", "monodim"}
NO_MONODIM = 0xffffffff


def dbl(u): return struct.unpack("d", struct.pack("Q", int(u)))[0]


def parse_case(line):
    w = line.split(); assert w[0] == "F"
    p = [1]
    def nat():
        v = int(w[p[0]]); p[0] += 1; return v
    def nats(n): return [nat() for _ in range(n)]
    c = {}
    c["ndim"], c["rows"] = nat(), nat()
    c["ranges"] = nats(c["ndim"])
    c["idx"] = [nats(c["rows"]) for _ in range(c["ndim"])]
    c["x"] = nats(c["rows"])
    c["weights"] = nats(nat())
    c["coords"] = [nats(nat()) for _ in range(nat())]
    c["orders"] = nats(nat())
    c["knots"] = [nats(nat()) for _ in range(nat())]
    c["smoothing"] = nats(nat())
    c["penalty"] = nats(nat())
    c["monodim"] = nat()
    c["tag"] = w[p[0]]
    return c


def consistent(c):
    """The property statement: None when the argument tuple is consistent, else the list of inconsistencies."""
    bad = []
    nd = c["ndim"]
    if len(c["weights"]) != c["rows"]: bad.append("number of weights")
    if nd < 1: bad.append("no dimensions")
    if c["rows"] < 1: bad.append("no data points")
    if len(c["coords"]) != nd: bad.append("number of coordinate vectors")
    if len(c["orders"]) != nd: bad.append("number of orders")
    if len(c["knots"]) != nd: bad.append("number of knot vectors")
    if len(c["smoothing"]) not in (nd, 1): bad.append("number of smoothing entries")
    if len(c["penalty"]) not in (nd, 1): bad.append("number of penalty entries")
    if c["monodim"] != NO_MONODIM and c["monodim"] >= nd: bad.append("monotonic dimension does not exist")
    for i in range(nd):
        if any(v >= c["ranges"][i] for v in c["idx"][i]): bad.append("data index outside declared range, dim %d" % i)
        if i < len(c["coords"]) and len(c["coords"][i]) < c["ranges"][i]: bad.append("coordinate vector shorter than index range, dim %d" % i)
        if i < len(c["knots"]):
            k = [dbl(u) for u in c["knots"][i]]
            if any(k[j + 1] < k[j] for j in range(len(k) - 1)): bad.append("unsorted knots, dim %d" % i)
            if i < len(c["orders"]) and len(k) < 2 * c["orders"][i] + 2: bad.append("too few knots for the order, dim %d" % i)
        if i < len(c["orders"]) and len(c["penalty"]) in (nd, 1):
            po = c["penalty"][i] if len(c["penalty"]) > 1 else c["penalty"][0]
            if po > c["orders"][i]: bad.append("penalty order above spline order, dim %d" % i)
    return bad or None


def split_impl(line):
    """-> (verdict string comparable with the model, dict of the remaining key=value fields)"""
    w = line.split()
    fields = {}
    cut = len(w)
    for n, t in enumerate(w):
        if "=" in t and t.split("=")[0] in ("nc", "finite", "table", "pop", "popv", "c", "ctable", "cnull", "retried"):
            cut = min(cut, n); k, v = t.split("=", 1); fields[k] = v
    return " ".join(w[:cut]), fields


def split_model(line):
    w = line.split(); fields = {}; cut = len(w)
    for n, t in enumerate(w):
        if t.split("=")[0] in ("c", "cnull", "cgf", "pop", "gf", "nowrap", "ud") and "=" in t:
            cut = min(cut, n); k, v = t.split("=", 1); fields[k] = v
    return " ".join(w[:cut]), fields


def san_class(line):
    for k, name in (("variable_length_array_bound", "vla-bound"), ("dynamic-stack-buffer-overflow", "stack-buffer-overflow"),
                    ("stack-buffer-overflow", "stack-buffer-overflow"), ("heap-buffer-overflow", "heap-buffer-overflow"),
                    ("null_pointer", "null-pointer"), ("SEGV", "segv"), ("Assertion", "assertion"), ("terminate_called", "terminate")):
        if k in line: return name
    return "crash"


def build(ctx, mode="san"):
    import psvlib
    return ctx.compile("fit_" + mode, ["fit_harness.cpp"], mode=mode, defines=HARNESS_KW["defines"], repo_c=psvlib.FITTER_C, libs=psvlib.FITTER_LIBS)


def compare(ctx, cases, impl, model, stats):
    n = 0; seen = set(); hist = collections.Counter(); sample_budget = 4
    sigs = collections.Counter()
    stats_extra = collections.Counter()
    def report(sig, replay, what):
        # one VIOLATION line (with its replay file) per failure class; further inputs of the same class are counted
        sigs[sig] += 1
        if sigs[sig] == 1: ctx.report(sig, replay, what)
    for c_line, i_line, m_line in zip(cases, impl, model):
        n += 1
        c_line = c_line.rstrip("\n"); i_line = i_line.rstrip("\n"); m_line = m_line.rstrip("\n")
        case = parse_case(c_line)
        replay = {"case": c_line, "args": {k: case[k] for k in ("ndim", "rows", "ranges", "orders", "penalty", "monodim", "tag")},
                  "nknots": [len(k) for k in case["knots"]], "ncoords": [len(k) for k in case["coords"]],
                  "nweights": len(case["weights"]), "nsmoothing": len(case["smoothing"]), "impl": i_line, "model": m_line,
                  "replay_cmd": "python3 bin/check.py C13 --replay <this file>"}
        seen.add(c_line.rsplit(" ", 1)[0])
        iv, fi = split_impl(i_line); mv, fm = split_model(m_line)
        what = consistent(case)
        kind = iv.split()[1] if iv.startswith("reject") and len(iv.split()) > 1 else iv.split()[0] if iv else "empty"
        hist[kind] += 1
        # ---- the property's own oracle, on the implementation's answer -------------------------------------------
        if iv.startswith("crash") or iv.startswith("timeout") or iv == "":
            cls = "timeout" if iv.startswith("timeout") else san_class(i_line)
            report("san:%s:%s" % (cls, "consistent arguments" if what is None else what[0].split(",")[0]), replay,
                       "fit on %s arguments (%s): %s" % ("consistent" if what is None else "inconsistent", "; ".join(what or ["-"]), i_line[:400]))
            continue
        if what is None:
            if iv.startswith("reject"):
                report("rejects-consistent:" + kind, replay, "fit rejects consistent arguments: " + iv)
            elif not (iv.startswith("ok shape") or iv == "glamfail"):
                report("unexpected-outcome", replay, "fit on consistent arguments ended with: " + iv)
            elif case["tag"].startswith("wp:") and not (iv.startswith("ok shape") and fi.get("finite") == "1"):
                report("valid-fit-fails", replay, "a well-posed valid fit did not complete with finite coefficients: " + i_line[:200])
        else:
            if not (iv.startswith("reject") and kind in ARG_ERRORS):
                report("accepts-inconsistent:" + what[0].split(",")[0], replay,
                           "inconsistent arguments (%s) are not rejected by an argument error: %s" % ("; ".join(what), i_line[:300]))
            elif fi.get("table") != "unchanged":
                report("reject-changes-table", replay, "fit threw %s but the table changed: %s" % (iv, i_line[:300]))
        # failure behind the sanity block (GLAM failure, allocation failure): the arguments were consistent, so this is not
        # an argument error -- but the caller must get an exception and an EMPTY table (storage guard; model: Ext.glamFailed
        # / Ext.badAlloc, theorem entry_solver_failure_leaves_empty)
        if (iv.startswith("glamfail") or iv.startswith("bad_alloc")) and fi.get("table") != "unchanged":
            report("failure-leaves-table", replay, "fit failed behind the sanity block (%s) and left a table behind: %s" % (iv, i_line[:300]))
        # the same call on a populated table: refused for every argument tuple, nothing changes (entry_occupied_refused)
        if fi.get("popv") is not None and (fi.get("popv") != "runtime:occupied" or fi.get("pop") != "unchanged"):
            report("occupied-not-refused" if fi.get("popv") != "runtime:occupied" else "reject-changes-table", replay,
                   "fit on a populated table must throw 'already contains data' and change nothing: popv=%s pop=%s" % (fi.get("popv"), fi.get("pop")))
        stats_extra["accepted_nowrap0"] += fm.get("nowrap") == "0" and mv.startswith("ok shape")
        stats_extra["accepted_underdetermined"] += fm.get("ud") == "1" and mv.startswith("ok shape")
        stats_extra["glamfail"] += iv.startswith("glamfail")
        if fm.get("ud") == "1" and iv.startswith("ok shape"):
            stats_extra["underdetermined_reported_success_nonfinite" if fi.get("finite") == "0" else "underdetermined_reported_success_finite"] += 1
        if "c" in fi and fi["c"] != "na":
            threw = not iv.startswith("ok")
            if (fi["c"] != "0") != threw:
                report("cwrapper-return", replay, "splinetable_glamfit returned %s but the C++ call %s" % (fi["c"], "threw " + iv if threw else "succeeded"))
            if threw and iv.startswith("reject") and fi.get("ctable") != "unchanged":
                report("cwrapper-table", replay, "splinetable_glamfit failed (%s) and changed the table" % iv)
            if fi.get("cnull") != "111":
                report("cwrapper-null", replay, "splinetable_glamfit with a null handle returned 0: cnull=%s" % fi.get("cnull"))
        if "retried" in fi:
            ctx.note("case %d (%s) completed only on attempt %s after a %s timeout: nondeterministic hang, cf. C12 (lost wake-up in walk_descents, reached through nnls_normal_block3 for monotone fits)" % (n, case["tag"], fi["retried"], "60 s"))
        # ---- model / implementation correspondence ------------------------------------------------------------------
        ok = True
        if mv.startswith("fault") or mv in ("bad-input", "model-inconsistent", ""):
            ok = False
        elif iv == "glamfail":
            ok = mv.startswith("ok shape")
        elif iv != mv:
            ok = False
        # populated table / failure path: model and implementation must agree
        if ok and fm.get("pop") != "occupied": ok = False
        if ok and "popv" in fi and fi["popv"] != "runtime:occupied": ok = False
        if ok and iv == "glamfail" and not (fm.get("gf") == "empty" and fi.get("table") == "unchanged"): ok = False
        if ok and iv == "glamfail" and fi.get("c", "na") != "na" and not (fm.get("cgf") == "1e" and fi.get("ctable") == "unchanged"): ok = False
        if ok and ("c" in fi) != ("c" in fm): ok = False
        if ok and fi.get("c", "na") != "na":
            expect = fm.get("c") if iv != "glamfail" else "1"
            if fm.get("c") == "na" or fi["c"] != expect or fm.get("cnull") != "11": ok = False
        if ok and fi.get("c", "na") == "na" and fm.get("c", "na") != "na": ok = False
        if not ok:
            ctx.tie_ok = False
            if len(ctx.broken) < 6:
                ctx.broken.append({"kind": "correspondence fit verdict", "case_tag": case["tag"], "impl": i_line[:300], "model": m_line[:300], "case": c_line[:600]})
        if sample_budget and (n % 97 == 1):
            sample_budget -= 1
            ctx.coverage["samples"].append({"tag": case["tag"], "ndim": case["ndim"], "orders": case["orders"], "nknots": [len(k) for k in case["knots"]],
                                            "penalty": case["penalty"], "impl": i_line[:160], "model": m_line[:160]})
    if sigs:
        ctx.coverage["failure_classes"] = dict(sigs)
        ctx.note("failing inputs per class: %s" % dict(sigs))
    ctx.coverage.setdefault("model_classes", {}).update({k: int(v) for k, v in stats_extra.items()})
    return n, seen, hist


def run_cases(ctx, exe, cases_path):
    impl = cases_path + ".impl"; model = cases_path + ".model"
    rc, out, err = ctx.run([exe, "run", cases_path, impl], timeout=3000, env={"OPENBLAS_NUM_THREADS": "1", "OMP_NUM_THREADS": "1"})
    if rc != 0:
        ctx.tie_ok = False; ctx.broken.append({"kind": "harness runner failed", "rc": rc, "stderr": err[-800:]})
        return None
    if not ctx.driver_ok() or not ctx.run_driver("C13", cases_path, model):
        ctx.tie_ok = False; ctx.broken.append({"kind": "driver failed"}); return None
    return impl, model


def run(ctx):
    ctx.audit()
    exe = build(ctx)
    if not exe:
        ctx.tie_ok = False; ctx.broken.append({"kind": "harness build failed"}); return
    nrandom = 1500 if ctx.tier == "quick" else 12000
    cases = os.path.join(ctx.scratch, "cases"); stats = cases + ".stats"
    rc, out, err = ctx.run([exe, "gen", str(nrandom), cases, stats])
    if rc != 0:
        ctx.tie_ok = False; ctx.broken.append({"kind": "generator failed", "stderr": err[-800:]}); return
    n = 0; seen = set(); hist = collections.Counter()
    # sanitizer build always; the as-shipped build (-O3 -DNDEBUG) additionally in the thorough tier
    for mode in (["san"] if ctx.tier == "quick" else ["san", "shipped"]):
        exe_m = exe if mode == "san" else build(ctx, mode)
        if not exe_m:
            ctx.tie_ok = False; ctx.broken.append({"kind": "harness build failed", "mode": mode}); continue
        r = run_cases(ctx, exe_m, cases)
        if not r: continue
        impl, model = r
        cl, il, ml = open(cases).readlines(), open(impl).readlines(), open(model).readlines()
        if not (len(cl) == len(il) == len(ml)):
            ctx.tie_ok = False; ctx.broken.append({"kind": "line count mismatch", "mode": mode, "cases": len(cl), "impl": len(il), "model": len(ml)})
        n_m, seen_m, hist_m = compare(ctx, cl, il, ml, stats)
        n += n_m; seen |= seen_m
        if mode == "san": hist = hist_m
    ctx.coverage["evaluations"] = n
    ctx.coverage["distinct_nontrivial"] = len(seen)
    ctx.coverage["rule"] = ("cases from harness/fit_harness.cpp gen (VERIF_SEED): 36 plain valid fits, every single (argument, variant) "
                            "in 1..3 dimensions twice, 8 consistent cases of absurd size (2^64 coefficients and more in 8..16 dimensions: the "
                            "failure path behind the sanity block), and random points of the cross product (each argument independently valid or one of its "
                            "invalid variants); every case is non-trivial (a real fit() call on a fresh table, a second one on a populated "
                            "table, and the C wrapper when expressible); distinct = distinct argument tuples")
    dist = json.load(open(stats)); dist["verdicts"] = dict(hist)
    ctx.coverage["input_distribution"] = dist
    ctx.assumptions += [
        "the ndsparse struct is well formed (ranges[ndim], i[ndim][rows], x[rows]) — C arrays carry no length, fit cannot check it",
        "only the index arithmetic of fit/add_penalty_term/calc_penalty/divided_diffs/bsplinebasis/bspline is modelled; CHOLMOD, slicemultiply, box, the NNLS and Cholesky solvers are covered by the sanitizer run only",
        "sizes: the decidable condition NoWrapB (ndim < 2^32, every knot vector < 2^31, ranges[i]*nsplines[i] < 2^31, fewer than 2^63 coefficients) replaces 'sizes < 2^31'; the sanity block does not imply it (theorem head_basis_counter_overflows, proposed fix C13-7)",
        "a failure behind the sanity block (GLAM fit failed / bad_alloc) is not an argument error; at HEAD the table is then empty again (checked on the 'huge' cases; bad_alloc cannot be produced under ASan and is not exercised in the quick tier)",
        "which numbers make the solver fail is C09/C10's subject; C13 proves only that UnderdeterminedB arguments (no smoothing, fewer data points than coefficients) are accepted although their normal matrix is singular",
    ]


def replay(ctx, path):
    r = json.load(open(path))
    print(json.dumps({k: r[k] for k in r if k != "case"}, indent=1)[:2500])
    if "case" not in r:
        return run(ctx)
    ctx.audit()
    exe = build(ctx)
    if not exe:
        ctx.tie_ok = False; ctx.broken.append({"kind": "harness build failed"}); return
    cases = os.path.join(ctx.scratch, "replay_case")
    with open(cases, "w") as f: f.write(r["case"].rstrip("\n") + "\n")
    rr = run_cases(ctx, exe, cases)
    if not rr: return
    impl, model = rr
    il, ml = open(impl).readlines(), open(model).readlines()
    print("impl : " + il[0].rstrip()); print("model: " + ml[0].rstrip())
    n, seen, hist = compare(ctx, [r["case"]], il, ml, None)
    ctx.coverage["evaluations"] = n; ctx.coverage["distinct_nontrivial"] = len(seen)
