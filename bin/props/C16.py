"""C16 — auxiliary keys behave as an ordered string map that survives serialisation.

Proof: lean/PsV/Props/C16.lean about PsV.Aux.* (lean/PsV/Model/AuxKeys.lean), whose constants and reserved-prefix
table are regenerated from the working tree by tools/gen_c16.py into lean/PsV/Generated/C16.lean before the build.
Tie: harness/c16_harness.cpp runs random histories (<= 40 ops) on a real splinetable (C++ API and C wrappers,
write_fits_mem -> read_fits_mem round trips) and, separately, single entries straight through cfitsio; `psvdriver C16`
replays the same lines on PsV.Aux.step; outcome token and the full ordered store must agree after every op, exactly.
Oracle: a reference ordered map kept here in Python from the *requested* operations (independent of the Lean model):
lookups/removals/typed reads are judged against it, a rejected write must leave the store untouched, and every entry
present before a round trip must come back with the same key, in the same order, the value equal up to trailing blanks
and, for plain keys and printable values, followed by exactly the number of blanks theorem C16_accepted_survive_fits
states (pad_of = PsV.Aux.padOf, written out again here)."""
import json, os, re, struct, subprocess, sys
from collections import Counter

import psvlib

LEVEL = "proof"
RESERVED_SPEC = ["BITPIX", "SIMPLE", "TYPE", "ORDER", "NAXIS", "PERIOD", "EXTEND", "COMMENT"]
REJECT_TOKENS = {"reserved", "shortchar", "haseq", "haslower", "keytoolong", "valuetoolong", "edgeblank", "keynonprint", "valuenonprint"}
INT_RE = re.compile(r"^[ \t\n\v\f\r]*([+-]?[0-9]+)")
FLOAT_FULL = re.compile(r"^[+-]?([0-9]+\.?[0-9]*|\.[0-9]+)([eE][+-]?[0-9]+)?$")


def unhex(h):
    return "" if h == "-" else bytes.fromhex(h).decode("latin-1")


def parse_store(s):
    s = s.strip()
    if s == ".": return []
    return [tuple(unhex(x) for x in e.split(":")) for e in s.split(",")]


def split_line(line):
    a, _, b = line.rstrip("\n").partition(" | ")
    return a, b


def printable(s):
    return all(32 <= ord(ch) <= 126 for ch in s)


def key_class(k):
    """classes of keys which cfitsio does not store verbatim; write_key refuses them since fixes/C16-5.diff"""
    if k == "" or k.strip(" ") == "": return "empty-or-blank-key"
    if k[0] == " " or k[-1] == " ": return "key-with-leading-or-trailing-blank"
    if k.startswith("HIERARCH "): return "explicit-HIERARCH-prefix"
    if k in ("END", "HISTORY", "CONTINUE"): return "commentary-keyword-" + k
    if k in ("EXTNAME", "HDUNAME"): return "hdu-name-keyword-" + k    # names the primary HDU: read_fits finds the knot images by name (fix 9579c12)
    if k in ("PCOUNT", "GCOUNT"): return "group-structure-keyword-" + k    # cfitsio takes the primary array for a group structure: the coefficient image cannot be written any more (fix C16-7)
    if not printable(k): return "non-printable-character-in-key"
    return None


def spec_accepts(k, v):
    """what write_key has to accept, written out from the documentation of the card format (the right-hand side of theorem
    C16_validate_iff, independently of the Lean model)"""
    if any(k.startswith(p) for p in RESERVED_SPEC) or key_class(k) is not None or not printable(v): return False
    d = len(v) + v.count("'")
    if len(k) <= 8: return re.match(r"^[A-Z0-9]+$", k) is not None and d <= 68
    return "=" not in k and not any("a" <= ch <= "z" for ch in k) and len(k) <= 66 and len(k) + d <= 67


def pad_of(k, v):
    """PsV.Aux.padOf: blanks a FITS round trip appends (value padded to 8 characters inside the quotes, cut short on a full HIERARCH card)"""
    d = len(v) + v.count("'")
    return max(0, 8 - d) if len(k) <= 8 else max(0, min(8 - d, 67 - len(k) - d))


def dbl_bits(x):
    return struct.unpack("Q", struct.pack("d", x))[0]


class Oracle:
    """reference ordered map; judge(op, impl_outcome, impl_store) -> list of (signature, text)"""
    def __init__(self): self.ref = []; self.tainted = False

    def lookup(self, k):
        for a, b in self.ref:
            if a == k: return b
        return None

    def judge(self, op, out, store):
        bad = []
        kind = op[0]
        ref = self.ref
        if self.tainted:   # a (reported) round trip left two entries with the same key: no longer a map, the rest is judged by the tie only
            self.ref = store; return bad
        if kind in ("W", "I", "D"):
            k = unhex(op[1]); v = op[2] if kind == "I" else unhex(op[2])
            tok = out[2:]
            if tok in ("appended", "updated"):
                present = self.lookup(k) is not None
                new = [(a, v if a == k else b) for a, b in ref] if present else ref + [(k, v)]
                if store != new:
                    bad.append(("write:store", "after an accepted write of %r=%r the store is %r, an insertion-ordered map would be %r" % (k, v, store, new)))
                if present != (tok == "updated"):
                    bad.append(("write:return", "write_key returned %s for a key that was %spresent" % (tok, "" if present else "not ")))
                if any(k.startswith(p) for p in RESERVED_SPEC):
                    bad.append(("write:reserved-accepted", "reserved keyword %r was accepted" % k))
                if "=" in k: bad.append(("write:malformed-accepted", "key %r containing '=' was accepted" % k))
                cls = key_class(k) or (None if printable(v) else "control-character-in-value")
                if cls: bad.append(("write:unstorable-accepted:" + cls, "write_key accepted %r=%r, which a FITS header cannot hold as it is (%s)" % (k, v, cls)))
                elif not spec_accepts(k, v): bad.append(("write:invalid-accepted", "write_key accepted %r=%r, which the card format has no room for or the key syntax forbids" % (k, v)))
            else:
                if store != ref:
                    bad.append(("write:reject-changed-store", "write of %r was rejected (%s) but the store changed: %r -> %r" % (k, tok, ref, store)))
                if tok not in REJECT_TOKENS and tok != "threw":
                    bad.append(("write:unexpected-exception", "write of %r raised an unexpected exception (%s)" % (k, tok)))
                # valid requests must be accepted
                if spec_accepts(k, v):
                    bad.append(("write:valid-rejected", "valid key %r with the printable value %r (%d characters) was rejected (%s)" % (k, v, len(v), tok)))
            self.ref = store
        elif kind == "X":
            k = unhex(op[1]); present = self.lookup(k) is not None
            new = [(a, b) for a, b in ref if a != k]
            if out != ("rm:1" if present else "rm:0"): bad.append(("remove:return", "remove_key(%r) returned %s, key was %spresent" % (k, out, "" if present else "not ")))
            if store != new: bad.append(("remove:store", "after remove_key(%r): %r, expected %r" % (k, store, new)))
            self.ref = store
        elif kind in ("G", "RS", "RI", "RD"):
            k = unhex(op[1]); v = self.lookup(k)
            if store != ref: bad.append(("read:store-changed", "a lookup changed the store"))
            if v is None:
                if not out.endswith(":absent"): bad.append(("read:absent", "lookup of absent key %r gave %s" % (k, out)))
            elif kind == "G":
                if out != "g:text:" + (v.encode("latin-1").hex() or "-"): bad.append(("get:value", "get_aux_value(%r) gave %s, stored value is %r" % (k, out, v)))
            elif kind == "RS":
                if out != "rs:1:" + (v.encode("latin-1").hex() or "-"): bad.append(("readstr:value", "read_key<string>(%r) gave %s, stored value is %r" % (k, out, v)))
            elif kind == "RI":
                m = INT_RE.match(v)
                if m:
                    n = int(m.group(1))
                    exp = "ri:1:%d" % n if -2**31 <= n < 2**31 else "ri:0:%d" % (2**31 - 1 if n > 0 else -2**31)
                    if out != exp: bad.append(("readint:value", "read_key<int>(%r) gave %s, the stored string %r denotes %d" % (k, out, v, n)))
                elif out.startswith("ri:1"): bad.append(("readint:value", "read_key<int>(%r) succeeded (%s) on the non-numeric string %r" % (k, out, v)))
            elif kind == "RD":
                t = v.strip(" \t\n\r\v\f") if v == v.lstrip(" \t\n\r\v\f") or True else v
                body = v.lstrip(" \t\n\r\v\f")
                if FLOAT_FULL.match(body):
                    x = float(body)
                    exp_ok = x not in (float("inf"), float("-inf"))
                    if exp_ok and out != "rd:1:%d" % dbl_bits(x):
                        bad.append(("readdouble:value", "read_key<double>(%r) gave %s, the stored string %r denotes %r" % (k, out, v, x)))
                elif not re.match(r"^[+-]?(\.?[0-9]|[iInN])", body) and out.startswith("rd:1"):
                    bad.append(("readdouble:value", "read_key<double>(%r) succeeded (%s) on the non-numeric string %r" % (k, out, v)))
        elif kind == "F":
            if out != "f:ok":
                cls = None
                for a, b in ref:
                    cls = cls or key_class(a)
                if cls is None and any(len(a) >= 67 for a, b in ref): cls = "key-of-67-or-more-characters"
                bad.append((("fits-roundtrip:" + cls) if cls and cls != "key-of-67-or-more-characters" else "fits:%s:%s" % (out[2:], cls or "other"), "round trip failed (%s) with the accepted entries %r" % (out, ref)))
            else:
                why = None
                if len(store) != len(ref):
                    missing = [a for a, b in ref if a not in [x for x, y in store]]
                    off = missing[0] if missing else None
                    why = ("count", off, "%d entries came back for %d stored (first missing key %r)" % (len(store), len(ref), off))
                else:
                    for (a, b), (x, y) in zip(ref, store):
                        if a != x: why = ("key", a, "key %r came back as %r" % (a, x)); break
                        if y.rstrip(" ") != b.rstrip(" "):
                            sub = "quote" if "'" in b else "value"
                            why = (sub, a, "value %r of key %r came back as %r" % (b, a, y)); break
                        # the exact statement of theorem C16_accepted_survive_fits (padOf), evaluated on the implementation's output
                        if key_class(a) is None and printable(a + b) and y != b + " " * pad_of(a, b):
                            why = ("pad", a, "value %r of key %r came back as %r, the theorem says %d padding blanks" % (b, a, y, pad_of(a, b))); break
                if why:
                    cls = None
                    for a, b in ref: cls = cls or key_class(a)
                    if cls is None and any(not (32 <= ord(ch) < 127) for a, b in ref for ch in b): cls = "control-character-in-value"
                    sig = ("fits-roundtrip:" + cls) if cls else "fits:%s:%s" % (why[0], "long-key" if why[1] is not None and len(why[1]) > 8 else "short-key")
                    bad.append((sig, "accepted entries do not survive the FITS round trip: %s; before %r, after %r" % (why[2], ref, store)))
            self.ref = store
            if len(set(a for a, b in store)) != len(store): self.tainted = True
        return bad


def outcome_equal(op, impl, model):
    if impl == model: return True
    if impl == "w:threw" and model.startswith("w:") and model[2:] in REJECT_TOKENS: return True
    if op and op[0] == "RD" and impl.startswith("rd:") and model.startswith("rd:text:") and impl != "rd:absent" and "differs" not in impl and "touched" not in impl:
        return True   # numeric value judged by the oracle
    return False


def run(ctx):
    gen = subprocess.run([sys.executable, os.path.join(psvlib.VERIF, "tools", "gen_c16.py"), psvlib.REPO,
                          os.path.join(psvlib.LEAN, "PsV", "Generated", "C16.lean")], stdout=subprocess.PIPE, stderr=subprocess.STDOUT, text=True)
    ctx.note(gen.stdout.strip()[-300:])
    if gen.returncode != 0:
        ctx.tie_ok = False
        ctx.broken.append({"kind": "translator tools/gen_c16.py failed closed", "out": gen.stdout[-600:]})
    built = ctx.audit()
    exe = ctx.compile("c16h", ["c16_harness.cpp"], mode="san")
    if not exe:
        ctx.tie_ok = False
        ctx.broken.append({"kind": "harness build failed (the harness instantiates write_key<int,double,string>, remove_key, read_key<...>; "
                                   "a compile error in those templates shows up here)", "log": [n for n in ctx.notes if "compile failed" in n or "link failed" in n][-1:]})
        return
    nseq, ncards = (700, 3000) if ctx.tier == "quick" else (40000, 150000)
    base = os.path.join(ctx.scratch, "c16")
    cases, impl, stats, model = base + ".in", base + ".impl", base + ".stats", base + ".model"
    rc, out, err = ctx.run([exe, str(nseq), "40", str(ncards), cases, impl, stats], timeout=1500)
    if rc != 0:
        ctx.tie_ok = False
        last = open(cases).read().splitlines()[-45:] if os.path.exists(cases) else []
        i = max([j for j, l in enumerate(last) if l == "N"] or [0])
        ctx.violation({"harness_rc": rc, "stderr": err[-3000:], "last_sequence": last[i:], "replay_cmd": "VERIF_SEED=%d python3 bin/check.py C16 --tier %s" % (ctx.seed, ctx.tier)},
                      "aux-key harness %s (rc=%d) during the sequence ending with %s: %s" % ("timed out" if rc == 124 else "aborted (sanitizer / assertion / crash)", rc, last[-1:] , err[-400:]))
        return
    have_model = built and ctx.driver_ok() and ctx.run_driver("C16", cases, model)
    if not have_model:
        ctx.tie_ok = False; ctx.broken.append({"kind": "driver failed or not built"})
    fm = open(model) if have_model else None
    seq = []; orc = Oracle(); evals = 0; nontrivial = set(); mism = 0; sigs = Counter(); cards = 0
    with open(cases) as fc, open(impl) as fi:
        for n, (c, i) in enumerate(zip(fc, fi), 1):
            op = c.split(); io, istore = split_line(i)
            m = fm.readline() if fm else None
            if op[0] == "N":
                seq = []; orc = Oracle(); continue
            evals += 1
            if m is not None:
                mo, mstore = split_line(m)
                if op[0] == "K":
                    cards += 1
                    if io != mo:
                        mism += 1; ctx.tie_ok = False
                        if mism <= 5:
                            ctx.broken.append({"kind": "correspondence cfitsio string card (ffs2c/ffmkky/ffprec/ffgknm/ffpsvc model)", "key": unhex(op[1]), "value": unhex(op[2]),
                                               "impl": [unhex(x) for x in io.split(":")[1:]], "model": [unhex(x) for x in mo.split(":")[1:]], "line": n})
                    continue
                if not outcome_equal(op, io, mo) or istore != mstore:
                    mism += 1; ctx.tie_ok = False
                    if mism <= 5:
                        ctx.broken.append({"kind": "correspondence aux store: outcome / ordered store differ", "line": n, "op": c.strip(), "op_readable": [op[0]] + [unhex(x) if op[0] != "I" or j == 0 else x for j, x in enumerate(op[1:])],
                                           "impl": i.strip(), "model": m.strip(), "impl_store": parse_store(istore), "model_store": parse_store(mstore), "sequence": list(seq) + [c.strip()]})
            elif op[0] == "K":
                continue
            before = tuple(orc.ref)
            for sig, text in orc.judge(op, io, parse_store(istore)):
                sigs[sig] += 1
                if sigs[sig] == 1:
                    ctx.report(sig, {"sequence": list(seq) + [c.strip()], "sequence_readable": [[w[0]] + [unhex(x) if w[0] != "I" or j == 0 else x for j, x in enumerate(w[1:])] for w in [s.split() for s in list(seq) + [c.strip()]]],
                                     "impl": i.strip(), "model": (m or "").strip(), "line": n, "signature": sig,
                                     "replay_cmd": "VERIF_SEED=%d python3 bin/check.py C16 --tier %s" % (ctx.seed, ctx.tier)}, "C16 oracle: " + text)
            if before or io in ("w:appended",): nontrivial.add((c, before))
            if len(ctx.coverage["samples"]) < 6 and before and op[0] in ("F", "W", "X", "RI") and evals % 97 == 0:
                ctx.coverage["samples"].append({"op": [op[0]] + [unhex(x) if op[0] != "I" or j == 0 else x for j, x in enumerate(op[1:])], "store_before": list(before), "impl": io, "model": (split_line(m)[0] if m else None), "store_after": parse_store(istore)})
            seq.append(c.strip())
    if mism: ctx.note("correspondence mismatches: %d" % mism)
    ctx.coverage["evaluations"] = evals
    ctx.coverage["distinct_nontrivial"] = len(nontrivial)
    ctx.coverage["rule"] = ("histories drawn from VERIF_SEED by harness/c16_harness.cpp (5..40 ops over a pool of 3..7 keys); an op is non-trivial when it acts on a non-empty store "
                            "or appends; distinct = distinct (op line, reference store before) pairs; plus %d single-entry card checks against cfitsio" % cards)
    ctx.coverage["input_distribution"] = json.load(open(stats)) if os.path.exists(stats) else {}
    ctx.coverage["oracle_signatures"] = dict(sigs)
    ctx.coverage["correspondence_mismatches"] = mism
    ctx.assumptions += [
        "short keys with bytes >= 0x80 (where isupper on a negative char is undefined) are not generated; long keys and values with control characters and bytes >= 0x80 are generated (rejected since fixes/C16-5)",
        "cfitsio 4.2.0 string-card routines are modelled by hand (ffs2c, ffmkky, ffprec, ffgrec, ffgknm, ffpsvc) and compared with cfitsio itself on every run; the rest of the FITS file is C06's business",
        "double formatting/parsing (operator<<, operator>> for double) is not modelled: the text C++ produced enters the model, read_key<double> is judged by Python's float() on fully numeric strings",
        "allocation failure paths of write_key/remove_key are not exercised (C20)",
    ]


def replay(ctx, path):
    r = json.load(open(path))
    print(json.dumps(r, indent=1)[:4000])
    run(ctx)
