"""C04 — centre lookup accepts exactly the knot range and brackets the point.
Proof: PsV/Props/C04.lean (C04_searchAxis, C04_searchCenters, C04_driver_instance, C04_nan_rejected).
Tie: real searchcenters / tablesearchcenters / evaluator.searchcenters / operator() vs PsV.searchCenters on
order-isomorphic integer keys, exact equality; oracle: the theorem's right-hand side evaluated directly."""
import json, os
from . import evalcommon as E

def run(ctx):
    ctx.audit()
    n_t, n_p = (400, 40) if ctx.tier == "quick" else (6000, 120)
    modes = ["shipped"] if ctx.tier == "quick" else ["shipped", "san"]
    seen = set(); evals = 0; kinds = {}
    for mode in modes:
        exe = E.build(ctx, mode)
        if not exe:
            ctx.tie_ok = False; ctx.broken.append({"kind": "harness build failed", "mode": mode}); continue
        rc, out, err, cases, impl, stats = E.generate(ctx, exe, "C04", n_t, n_p, 4000, tag=mode)
        if rc != 0:
            ctx.tie_ok = False
            what = "lookup harness %s (rc=%d): %s" % ("timed out: lookup did not terminate" if rc == 124 else "aborted", rc, err[-600:])
            tbl, lc = E.last_case(cases)
            what += " | last input before it stopped: " + lc[:200]
            ctx.violation({"harness_rc": rc, "stderr": err[-2000:], "last_table": tbl, "last_case_line": lc, "replay_cmd": "VERIF_SEED=%d python3 bin/check.py C04 --tier %s" % (ctx.seed, ctx.tier)}, what)
            continue
        model = cases + ".model"
        if not ctx.driver_ok() or not ctx.run_driver("EV", cases, model):
            ctx.tie_ok = False; ctx.broken.append({"kind": "driver failed"}); continue
        st = json.load(open(stats)); kinds = st
        table = None
        for n, tw, c, i, m in E.triples(cases, impl, model):
            k = c[:1]
            if k == "T": table = E.parse_table(tw.split()); continue
            if k == "X":
                evals += 1
                ctx.violation({"table": table, "case": c, "impl": i, "line": n}, "entry points disagree on lookup / call operator: %s %s" % (c, i))
                continue
            if k == "S":
                evals += 1
                xs = [E.dbl(z) for z in c.split()[1:]]
                bad = E.lookup_oracle(table, xs, i)
                if bad:
                    ctx.report("lookup:" + bad.split(":")[0], {"table": table, "x": xs, "x_bits": c.split()[1:], "impl": i, "model": m, "line": n, "table_line": tw, "case_line": c}, "C04 oracle: " + bad)
                if i != m:
                    ctx.tie_ok = False
                    if len(ctx.broken) < 5: ctx.broken.append({"kind": "correspondence searchCenters", "table": table, "x_bits": c.split()[1:], "impl": i, "model": m, "table_line": tw[:20000], "case_line": c})
                if i.startswith("ok"): seen.add((tw, c))
                if len(ctx.coverage["samples"]) < 4: ctx.coverage["samples"].append({"x": xs, "impl": i, "model": m, "orders": [d["order"] for d in table["dims"]], "nknots": [d["nknots"] for d in table["dims"]]})
            elif k == "B":
                evals += 1
                if i != m.split()[0]:
                    ctx.tie_ok = False
                    if len(ctx.broken) < 5: ctx.broken.append({"kind": "correspondence value bits", "case": c, "impl": i, "model": m})
    ctx.coverage["evaluations"] = evals
    ctx.coverage["distinct_nontrivial"] = len(seen)
    ctx.coverage["rule"] = "tables and points drawn from VERIF_SEED by harness/eval_harness.cpp (profile C04); a case is non-trivial when the lookup succeeds (point inside every range); distinct = distinct (table, point) lines"
    ctx.coverage["input_distribution"] = kinds
    ctx.assumptions += ["doubles are compared through an order-isomorphic integer key (NaN = unordered); theorem is for any linear order",
                        "uint32 index arithmetic does not wrap (nknots < 2^31)"]

def replay(ctx, path):
    def handler(table, tw, c, i, m):
        if c[:1] == "S":
            xs = [E.dbl(z) for z in c.split()[1:]]
            bad = E.lookup_oracle(table, xs, i)
            if bad: ctx.report("lookup:" + bad.split(":")[0], {"table": table, "x": xs, "impl": i, "model": m, "table_line": tw, "case_line": c}, "C04 oracle: " + bad)
            if i != m: ctx.tie_ok = False; ctx.broken.append({"kind": "correspondence searchCenters", "impl": i, "model": m, "case_line": c})
    if not E.replay_case(ctx, path, handler): run(ctx)
