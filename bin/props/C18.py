"""C18 — the C interface is a faithful, leak-free wrapper.

Proof   : lean/PsV/Props/C18.lean — theorems about the wrapper table and life-cycle facts that tools/gen_c18.py
          extracts from the *current* src/cinter/splinetable.cpp (clang AST) on every run:
          C18_no_exception_escapes, C18_wrapper_faithful (+ status/pointer/value corollaries), C18_null_guard_fails,
          C18_handles_balanced / C18_ledger_tracks_handles (unbounded induction over op sequences).
Tie     : harness/c18_harness.cpp runs random op sequences (<= 30 ops, 1..3 handles) through the C API and, call by
          call, through the C++ API on a twin object; `psvdriver C18` runs the C machine of C18_refines (cstep: wrapRet /
          guardRet / oomRet on the generated table, pointers and ledger on the generated facts) with the twin's outcome
          and object digest as the semantics of the C++ operation, and predicts the C return class, the object behind the
          handle (digest), the ledger, and whether the wrapper can request heap storage at all.  The harness replaces
          operator new: it counts the requests of every call (C side and twin) and makes the k-th one throw
          std::bad_alloc on request (`A:<k>`).
          Input classes: random histories (state-aware: handles that own nothing / an object without data / a table /
          "unknown" after an injected failure); the allocation-failure sweep (SWEEP); and the objects WITHOUT data
          (EMPTY_PRODUCERS x EMPTY_PROBES): every route to a handle with ndim == 0 (init, a reader that fails on a handle
          that owns nothing or on an initialised one, a failed fit, write_key / convolve / permute / the writers on the
          empty object) x every call the C++ class defines there, among them the value wrappers without a dimension
          argument (splinetable_ndim, splinetable_total_ncoeffs) and tablesearchcenters.  After every injected failure
          the value wrappers and the evaluation are called "if-object": on whatever the failed call left behind.
Oracle  : (independent of the model) return != 0 / NULL  <=>  the C++ call threw / returned false / could not be made;
          values and object digests bit-identical; once the script has released every handle and result (the harness
          counts what is still held) the C side retains no heap at all (ASan allocator statistics; a retention that the
          C++ twin shows as well is a leak inside the C++ object and is reported too), LeakSanitizer is silent for the
          C side; no sanitizer abort, no terminate().
"""
import json, os, random, re, subprocess, sys
import psvlib

VERIF = psvlib.VERIF
GEN = os.path.join(VERIF, "tools", "gen_c18.py")

WRAPPER_OF = {
    "init": "splinetable_init", "free": "splinetable_free", "readfile": "readsplinefitstable", "readmem": "readsplinefitstable_mem",
    "writefile": "writesplinefitstable", "writemem": "writesplinefitstable_mem", "getkey": "splinetable_get_key",
    "readkey": "splinetable_read_key", "writekey": "splinetable_write_key", "search": "tablesearchcenters", "eval": "ndsplineeval",
    "grad": "ndsplineeval_gradient", "deriv": "ndsplineeval_deriv", "glamfit": "splinetable_glamfit", "grideval": "splinetable_grideval",
    "nddestroy": "ndsparse_destroy", "permute": "splinetable_permute", "convolve": "splinetable_convolve",
}
GETTERS = {"ndim": "splinetable_ndim", "order": "splinetable_order", "nknots": "splinetable_nknots", "knots": "splinetable_knots",
           "knot": "splinetable_knot", "lower": "splinetable_lower_extent", "upper": "splinetable_upper_extent", "period": "splinetable_period",
           "ncoeffs": "splinetable_ncoeffs", "total": "splinetable_total_ncoeffs", "stride": "splinetable_stride", "coeffs": "splinetable_coefficients"}
# source-parameter name -> token understood by the harness
NULLTOK = {"table": "table", "path": "path", "key": "key", "result": "result", "value": "value", "buffer": "buffer",
           "buffer->data": "data", "data": "data", "knots": "knots"}
GOOD = ["t0", "t1", "t2", "t3", "t4"]
MAXSLOT = 4
# ops whose wrapper (or the C++ operation behind it) requests heap storage through operator new: candidates for an
# injected std::bad_alloc (`A:<k>`: the k-th request inside the call throws, on the C side and on the twin's side)
INJECTABLE = {"init", "readfile", "readmem", "writefile", "writemem", "readkey", "writekey", "glamfit", "grideval", "permute", "convolve", "grad"}
# wrappers whose first heap request (if they make one) is their own, not the C++ operation's
OWN_FIRST_REQUEST = {"readfile", "writefile", "glamfit", "grideval", "permute"}
INJECT_AT = [0, 0, 0, 1, 1, 2, 2, 3, 4, 5, 7, 10, 14, 20, 27, 40, 90, 250]
# Value wrappers whose C++ operation is DEFINED on an object without data (ndim == 0: a handle after splinetable_init, after
# a failed readsplinefitstable_mem / fit, after a convolve that emptied the table): the accessors without a dimension
# argument -- get_ndim() = 0, get_ncoeffs() = std::accumulate over an empty range = 1 -- and searchcenters (a loop over 0
# dimensions: true, nothing read or written).  NOT defined there, never called: the per-dimension accessors
# (assert(dim<ndim), null arrays), get_coefficients() (`&coefficients[0]` on the null array), the evaluation functions
# (`*std::max_element(order, order+0)`).  The harness skips (`skip`) whatever is not in this list on an empty object.
EMPTY_GETTERS = ["ndim", "total"]


def empty_grideval_defined():
    """Is grid evaluation of an object without data a defined operation of the C++ core (an exception), or does it read
    through the null arrays (process dies; the twin would die identically, so nothing could be learnt about the wrapper)?
    Looks for a test of ndim before the first use of naxes in detail/grideval.h; PSV_C18_EMPTY_GRIDEVAL=0|1 overrides."""
    env = os.environ.get("PSV_C18_EMPTY_GRIDEVAL")
    if env in ("0", "1"): return env == "1"
    try: src = open(os.path.join(psvlib.REPO, "include/photospline/detail/grideval.h")).read()
    except OSError: return False
    src = re.sub(r"/\*.*?\*/", "", src, flags=re.S); src = re.sub(r"//[^\n]*", "", src)
    i = src.find("naxes[")
    return i > 0 and re.search(r"\bndim\s*==\s*0|!\s*ndim\b|\bndim\s*<\s*1|0\s*==\s*ndim\b", src[:i]) is not None


def wrapper_of(words):
    return GETTERS[words[2]] if words[0] == "get" else WRAPPER_OF[words[0]]


# ---------------------------------------------------------------------------------------------- generation
class SeqGen:
    """Random op sequences; tracks the *expected* state of each handle so that only valid calls are made
    ("valid handles": value wrappers and the wrappers without a `table->data` guard only see handles with an object,
    evaluation only sees loaded tables, init only sees a handle that owns nothing)."""

    def __init__(self, rnd, side, stats, empty_grideval=False, inject_rate=0.09):
        self.r, self.side, self.stats, self.empty_grideval = rnd, side["wrappers"], stats, empty_grideval
        self.inject_rate = inject_rate

    def checks_data(self, op):
        return "table->data" in self.side[WRAPPER_OF[op]]["nullChecked"]

    def nullable(self, wname):
        w = self.side[wname]
        return [p for p in w["nullChecked"] if p in NULLTOK and p != "table->data"], w["mustBeNull"]

    def sequence(self, sid):
        r = self.r
        nh = r.choice([1, 1, 2, 2, 3])
        st = ["null"] * nh            # null | empty | loaded
        info = [dict() for _ in range(nh)]
        slots = [False] * MAXSLOT
        ops = []
        n = r.randint(6, 30 - nh - MAXSLOT)
        guard = 0
        while len(ops) < n and guard < 400:
            guard += 1
            h = r.randrange(nh)
            s = st[h]
            cand = self.candidates(s, info[h], slots)
            op = r.choices([c[0] for c in cand], weights=[c[1] for c in cand])[0]
            line = self.make(op, h, s, info[h], slots)
            if line is None: continue
            # occasionally pass NULL for an argument the wrapper guards
            words = line.split()
            if r.random() < 0.05 and words[0] != "nddestroy":
                wname = wrapper_of(words)
                nulls, must = self.nullable(wname)
                choices = [NULLTOK[p] for p in nulls] + (["occupied"] if must else [])
                if words[0] == "readmem": choices = [c for c in choices if c in ("buffer", "data", "table")]
                if words[0] == "glamfit": choices = [c for c in choices if c in ("data", "table")]
                if choices and words[0] not in ("get", "search", "eval", "grad", "deriv", "permute"):
                    line += " N:" + r.choice(choices)
                    ops.append(line); self.stats["null_argument_calls"] = self.stats.get("null_argument_calls", 0) + 1
                    continue
            if words[0] in INJECTABLE and s != "unknown" and r.random() < self.inject_rate:
                # allocation failure inside the call: whether the k-th request exists (and so whether the call fails) is not
                # known here, so the handle's state is unknown afterwards: only calls that are defined in every state follow
                # until a free / readsplinefitstable re-establishes it; a result slot that may have been filled is kept for
                # the clean-up (ndsparse_destroy of a NULL result is defined)
                line += " A:%d" % r.choice(INJECT_AT)
                self.stats["injected_calls"] = self.stats.get("injected_calls", 0) + 1
                if words[0] == "grideval": slots[int(words[2])] = True
                if words[0] not in ("grad", "readkey", "writefile", "writemem", "grideval"):   # (these cannot change the object)
                    st[h] = "unknown"; info[h] = {}
                ops.append(line)
                continue
            self.apply(words, h, st, info, slots)
            ops.append(line)
        for k in range(MAXSLOT):
            if slots[k]: ops.append("nddestroy %d" % k)
        for h in range(nh): ops.append("free %d" % h)
        return {"id": sid, "nh": nh, "ops": ops}

    def candidates(self, s, inf, slots):
        c = []
        if s == "null":
            c += [("init", 5), ("readfile", 5), ("readmem", 4), ("free", 1)]
            c += [(o, 1) for o in ("getkey", "readkey", "writekey", "glamfit", "grideval", "convolve") if self.checks_data(o)]
        elif s == "unknown":
            # after an injected allocation failure: null, empty or loaded.  Defined in all three: free, the file reader
            # (frees what is there), and the wrappers that test table->data and whose C++ operation is defined on an
            # object without data
            c += [("free", 4), ("readfile", 4), ("getkey", 1), ("readkey", 1), ("writekey", 1), ("convolve", 0.5)]
            # ... and, "if-object", the value wrappers and the evaluation: the harness knows what the failed call left behind
            # (nothing: not called; an object without data: the calls defined there; a table: all of them)
            c += [("probe", 5)]
        elif s == "empty":
            c += [("readmem", 5), ("readfile", 3), ("glamfit", 5), ("free", 2), ("writefile", 1), ("writemem", 1), ("getkey", 1), ("readkey", 1),
                  ("get_ndim", 1), ("get_total", 1.5), ("search", 1), ("writekey", 0.5), ("permute", 0.5), ("convolve", 0.7)]
            if self.empty_grideval: c.append(("grideval", 0.7))
        else:
            c += [("get", 6), ("search", 3), ("eval", 3), ("grad", 2), ("deriv", 2), ("getkey", 2), ("readkey", 4), ("writekey", 3),
                  ("writefile", 1.5), ("writemem", 1.5), ("grideval", 2.5), ("permute", 2), ("convolve", 1.5), ("readfile", 1.5), ("readmem", 1.5),
                  ("free", 1), ("glamfit", 0.6)]
        if any(slots): c.append(("nddestroy", 2))
        return c

    def make(self, op, h, s, inf, slots):
        r = self.r; seed = r.randrange(1, 1 << 30)
        if op == "init": return "init %d" % h
        if op == "free": return "free %d" % h
        if op == "readfile": return "readfile %d %s" % (h, r.choice(GOOD * 2 + ["missing", "garbage", "empty", "trunc", "trunc2"]))
        if op == "readmem": return "readmem %d %s" % (h, r.choice(GOOD * 2 + ["garbage", "trunc", "trunc2"]))
        if op == "writefile": return "writefile %d %s" % (h, r.choice(["ok", "ok", "baddir"]))
        if op == "writemem": return "writemem %d" % h
        if op == "getkey": return "getkey %d %s" % (h, r.choice(["INTKEY", "DBLKEY", "STRKEY", "NOPE", "NEWKEY0", "NEWKEY1"]))
        if op == "readkey": return "readkey %d %s %s" % (h, r.choice("id"), r.choice(["INTKEY", "DBLKEY", "STRKEY", "NOPE", "NEWKEY0", "NEWKEY1"]))
        if op == "writekey": return "writekey %d %s %s %d" % (h, r.choice("id"), r.choice(["NEWKEY0", "NEWKEY1", "NEWKEY2", "INTKEY", "DBLKEY", "NAXIS", "lower", "LONGKEYNAME12", "longlowercasekey"]), r.randrange(-99, 100))
        if op == "get_ndim": return "get %d ndim %d" % (h, seed)
        if op == "get_total": return "get %d total %d" % (h, seed)
        if op == "probe":
            k = r.choice(["get", "get", "get", "search", "eval", "grad", "deriv"])
            if k == "get": return "get %d %s %d if-object" % (h, r.choice(EMPTY_GETTERS * 3 + sorted(GETTERS)), seed)
            return "%s %d in %d if-object" % (k, h, seed)
        if op == "get": return "get %d %s %d" % (h, r.choice(sorted(GETTERS)), seed)
        if op == "search": return "search %d %s %d" % (h, "in" if s == "empty" else r.choice(["in", "in", "out", "out", "nan", "edge"]), seed)
        if op in ("eval", "grad", "deriv"): return "%s %d %s %d" % (op, h, r.choice(["in", "in", "in", "edge"]), seed)
        if op == "glamfit":
            if s == "loaded": v = r.choice(["unsorted", "badmono", "badidx", "good1", "good2"])   # fit refuses a table that holds data
            else: v = r.choice(["good1", "good1", "good2", "unsorted", "badmono", "badidx"])
            return "glamfit %d %s %d" % (h, v, seed)
        if op == "grideval":
            free = [k for k in range(MAXSLOT) if not slots[k]]
            if not free: return None
            return "grideval %d %d %d%s" % (h, free[0], seed, " empty-ok" if s == "empty" else "")
        if op == "nddestroy":
            occ = [k for k in range(MAXSLOT) if slots[k]]
            return "nddestroy %d" % r.choice(occ)
        if op == "permute": return "permute %d %s %d" % (h, r.choice(["valid", "valid", "dup", "big"]), seed)
        if op == "convolve":
            if s == "loaded" and inf.get("conv", 0) >= 2: return None
            if s == "unknown": return "convolve %d %s %d" % (h, r.choice(["baddim", "negdim", "nokernel"]), seed)
            return "convolve %d %s %d" % (h, r.choice(["valid", "valid", "valid", "huge", "baddim", "negdim", "nokernel"]), seed)
        raise KeyError(op)

    def apply(self, w, h, st, info, slots):
        """expected effect on the abstract state"""
        op = w[0]; s = st[h]
        if op == "nddestroy": slots[int(w[1])] = False; return
        if op == "init": st[h] = "empty"; info[h] = {}
        elif op == "free": st[h] = "null"; info[h] = {}
        elif op == "readfile":
            if w[2] in GOOD: st[h] = "loaded"; info[h] = {"src": w[2]}
            else: st[h] = "null"; info[h] = {}
        elif op == "readmem":
            if s == "loaded": pass
            elif w[2] in GOOD: st[h] = "loaded"; info[h] = {"src": w[2]}
            else: st[h] = "empty"                  # a failed read leaves (or makes) the object empty
        elif op == "glamfit":
            # fit works on an empty object only; it refuses one that holds data, a failed fit leaves the object empty
            if s == "empty" and w[2] in ("good1", "good2"): st[h] = "loaded"; info[h] = {"src": "fit"}
        elif op == "grideval":
            # every loaded table yields a result, the all-zero one (t4) a result with no rows
            if s == "loaded": slots[int(w[2])] = True
        elif op == "convolve":
            if s == "loaded" and w[2] == "valid": info[h]["conv"] = info[h].get("conv", 0) + 1


# Every failure position of one heap request inside one call, one position per (short) sequence: set-up, the call with
# `A:<k>`, clean-up.  (set-up ops, op, positions); the number of requests a call makes is not known here — positions
# beyond it simply do not fire.
SWEEP = [
    ([], "init 0", range(0, 2)),
    ([], "readfile 0 t1", range(0, 34)), ([], "readfile 0 t3", range(0, 34, 3)),
    ([], "readmem 0 t2", range(0, 34)), (["init 0"], "readmem 0 t0", range(0, 34, 2)),
    (["readfile 0 t1"], "permute 0 valid %(seed)d", range(0, 22)), (["readfile 0 t2"], "permute 0 valid %(seed)d", range(0, 22)),
    (["readfile 0 t0"], "permute 0 valid %(seed)d", range(0, 22)),
    (["readfile 0 t1"], "convolve 0 valid %(seed)d", list(range(0, 40)) + list(range(40, 340, 7))),
    (["readfile 0 t0"], "convolve 0 valid %(seed)d", list(range(0, 40)) + list(range(40, 200, 7))),
    (["init 0"], "glamfit 0 good1 %(seed)d", range(0, 20)), (["init 0"], "glamfit 0 good2 %(seed)d", range(0, 20)),
    (["readfile 0 t1"], "grideval 0 0 %(seed)d", range(0, 6)), (["readfile 0 t4"], "grideval 0 0 %(seed)d", range(0, 6)),
    (["readfile 0 t1"], "writekey 0 i NEWKEY0 5", range(0, 7)), (["readfile 0 t1"], "writekey 0 d longlowercasekey 5", range(0, 7)),
    (["readfile 0 t1"], "writekey 0 i INTKEY 7", range(0, 7)),
    (["readfile 0 t1"], "readkey 0 d longlowercasekey", range(0, 3)),
    (["readfile 0 t1"], "writefile 0 ok", range(0, 5)), (["readfile 0 t2"], "writemem 0", range(0, 6)),
    (["readfile 0 t3"], "grad 0 in %(seed)d", range(0, 4)),
]


def sweep_sequences(rnd):
    seqs = []
    per_dim = sorted(set(GETTERS) - set(EMPTY_GETTERS))
    for setup, op, ks in SWEEP:
        seed = rnd.randrange(1, 1 << 30)
        for k in ks:
            ops = list(setup) + [(op % {"seed": seed}) + " A:%d" % k]
            # what the failed (or completed) call left behind the handle -- nothing, an object without data (a reader / fit /
            # convolve that failed after it had dismantled the table), or a table -- is then read through the value wrappers
            # and evaluated, as far as the C++ class defines that for the object the harness finds there ("if-object")
            ops += ["get 0 ndim %d if-object" % seed, "get 0 total %d if-object" % seed, "search 0 in %d if-object" % seed,
                    "get 0 %s %d if-object" % (per_dim[(len(seqs)) % len(per_dim)], seed + k), "eval 0 in %d if-object" % (seed + k)]
            if op.startswith("grideval"): ops.append("nddestroy 0")
            ops.append("free 0")
            seqs.append({"id": "w%d" % len(seqs), "nh": 1, "ops": ops})
    return seqs


# Handles that hold an object WITHOUT data, by every route the C interface offers, x every call the C++ class defines on
# such an object; after the call the accessors without a dimension argument once more (the object is still a valid one).
EMPTY_PRODUCERS = [
    ["init 0"],
    ["readmem 0 garbage"], ["readmem 0 trunc"], ["readmem 0 trunc2"],       # handle owns nothing: the wrapper creates the object, the read fails
    ["init 0", "readmem 0 garbage"], ["init 0", "readmem 0 trunc2"],
    ["init 0", "glamfit 0 unsorted %(seed)d"], ["init 0", "glamfit 0 badmono %(seed)d"], ["init 0", "glamfit 0 badidx %(seed)d"],
    ["init 0", "writekey 0 i NEWKEY0 5"], ["init 0", "writekey 0 d INTKEY -7", "readkey 0 i INTKEY"],
    ["init 0", "convolve 0 baddim %(seed)d"], ["init 0", "permute 0 valid %(seed)d"],
    ["init 0", "writemem 0"], ["init 0", "writefile 0 ok"],
    ["readfile 0 t1", "free 0", "init 0"], ["readfile 0 missing", "init 0"],
]
EMPTY_PROBES = [
    ["get 0 ndim %(seed)d"], ["get 0 total %(seed)d"], ["search 0 in %(seed)d"],
    ["getkey 0 NEWKEY0"], ["readkey 0 i NEWKEY0"], ["readkey 0 d INTKEY"], ["writekey 0 d NEWKEY1 3"],
    ["writefile 0 ok"], ["writemem 0"], ["permute 0 valid %(seed)d"], ["convolve 0 negdim %(seed)d"], ["convolve 0 nokernel %(seed)d"],
    ["readmem 0 trunc"], ["glamfit 0 badidx %(seed)d"],
    # ... and the object filled afterwards through the same handle
    ["glamfit 0 good1 %(seed)d", "get 0 ncoeffs %(seed)d", "get 0 coeffs %(seed)d"], ["readmem 0 t2", "get 0 stride %(seed)d", "get 0 coeffs %(seed)d"],
]


def empty_sequences(rnd, empty_grideval):
    seqs = []
    probes = EMPTY_PROBES + ([["grideval 0 0 %(seed)d empty-ok", "nddestroy 0"]] if empty_grideval else [])
    for prod in EMPTY_PRODUCERS:
        for probe in probes:
            d = {"seed": rnd.randrange(1, 1 << 30)}
            ops = [o % d for o in prod + probe] + ["get 0 total %(seed)d" % d, "get 0 ndim %(seed)d" % d, "search 0 in %(seed)d" % d, "free 0"]
            seqs.append({"id": "e%d" % len(seqs), "nh": 1, "ops": ops})
    return seqs


def write_script(path, seed, seqs):
    with open(path, "w") as f:
        f.write("FIX %d\n" % seed)
        for q in seqs:
            f.write("SEQ %s %d\n" % (q["id"], q["nh"]))
            for o in q["ops"]: f.write(o + "\n")
            f.write("END\n")


# ---------------------------------------------------------------------------------------------- running + parsing
RLINE = re.compile(r"^R (\S+) (\d+) (\S+) C (.*?) \| T (.*?) \| (-?\d+) (-?\d+) \| aC=(\d+):(\d):([0-9a-f]+) aT=(\d+):(\d):([0-9a-f]+)$")


def split_res(txt):
    """'z v=1 dg=abc' -> (status, values-without-digest, digest)"""
    parts = txt.split()
    dg = [p for p in parts if p.startswith("dg=")]
    rest = [p for p in parts[1:] if not p.startswith("dg=")]
    return parts[0] if parts else "", " ".join(rest), (dg[0][3:] if dg else None)


def run_harness(ctx, exe, seqs, tag, timeout):
    """Runs all sequences (restarting after an abort). Returns ({id: result}, aborts)."""
    results, aborts = {}, []
    todo = list(seqs); restarts = 0
    fx = os.path.join(ctx.scratch, "fx_" + tag); os.makedirs(fx, exist_ok=True)
    while todo and restarts <= 6:
        script = os.path.join(ctx.scratch, "script_%s_%d.txt" % (tag, restarts))
        write_script(script, ctx.seed, todo)
        rc, out, err = ctx.run([exe, script, fx], timeout=timeout, env={"ASAN_OPTIONS": "detect_leaks=1:abort_on_error=0:symbolize=%d" % (1 if len(seqs) == 1 else 0), "OMP_NUM_THREADS": "1", "OPENBLAS_NUM_THREADS": "1"})
        lsan = {}; prev = 0; cur = None
        for l in err.splitlines():
            m = re.search(r"SUMMARY: AddressSanitizer: (\d+) byte\(s\) leaked", l)
            if m: cur = int(m.group(1))
            if l.startswith("@E "):
                tot = cur if cur is not None else prev
                lsan[l.split()[1]] = tot - prev; prev = tot; cur = None
        cur_id = None; pending = None; cdone = False
        for l in out.splitlines():
            if l.startswith("S "): cur_id = l.split()[1]; results[cur_id] = {"ops": {}, "end": None}; pending = None
            elif l.startswith("B "): pending = l.split(); cdone = False
            elif l == "c": cdone = True
            elif l.startswith("R "):
                pending = None
                if l.endswith(" skip"):
                    results[cur_id]["ops"][int(l.split()[2])] = None; continue
                m = RLINE.match(l)
                if not m: results[cur_id]["ops"][int(l.split()[2])] = {"bad": l}; continue
                cs, cv, cdg = split_res(m.group(4)); ts, tv, tdg = split_res(m.group(5))
                results[cur_id]["ops"][int(m.group(2))] = {"cs": cs, "cv": cv, "cdg": cdg, "ts": ts, "tv": tv, "tdg": tdg, "dC": int(m.group(6)), "dT": int(m.group(7)),
                                                           "aC": (int(m.group(8)), int(m.group(9)), m.group(10)), "aT": (int(m.group(11)), int(m.group(12)), m.group(13)), "raw": l}
            elif l.startswith("E "):
                w = l.split(); kv = dict(x.split("=") for x in w[2:])
                results[cur_id]["end"] = {"sumC": int(kv["sumC"]), "sumT": int(kv["sumT"]), "liveH": int(kv["liveH"]), "liveR": int(kv["liveR"]), "lsan_bytes": lsan.get(w[1], 0)}
        finished = "Q done" in out
        if finished:
            break
        # abort / hang: the sequence under way is the offender
        ids = [q["id"] for q in todo]
        if cur_id is None or cur_id not in ids:
            aborts.append({"seq": None, "rc": rc, "stderr": err[-3000:], "what": "harness died before the first sequence"}); break
        k = ids.index(cur_id)
        kind = "timeout" if rc == 124 else "terminate" if "terminate called" in err else "asan" if "AddressSanitizer" in err else "ubsan" if "runtime error" in err \
            else "assert" if re.search(r"Assertion .* failed", err) else "signal"
        opname = pending[3] if pending else None
        if opname == "get":     # which of the value wrappers
            try: opname = "get:" + todo[k]["ops"][int(pending[2])].split()[2]
            except (IndexError, ValueError): pass
        aborts.append({"seq": todo[k], "op_index": int(pending[2]) if pending else None, "op": opname, "side": "twin" if cdone else "C",
                       "rc": rc, "kind": kind, "stderr": err[-3000:]})
        results.pop(cur_id, None)
        todo = todo[k + 1:]; restarts += 1
    return results, aborts


def driver_lines(seq, res):
    """script + twin outcomes -> driver input; returns (lines, index map)"""
    lines = ["SEQ %s %d %d" % (seq["id"], seq["nh"], MAXSLOT)]; idx = []
    for i, o in enumerate(seq["ops"]):
        r = res["ops"].get(i)
        if not r or "bad" in r: continue
        w = o.split(); kind = w[0]
        wname = wrapper_of(w)
        h = 0 if kind == "nddestroy" else int(w[1])
        slot = int(w[1]) if kind == "nddestroy" else int(w[2]) if kind == "grideval" else 0
        sel = 1 if kind in ("readkey", "writekey") and w[2] == "d" else 0
        nulls = [x[2:] for x in w if x.startswith("N:")]
        nullparam = "-"
        if r["ts"] == "inv":
            if nulls:
                inv = {v: k for k, v in NULLTOK.items()}
                tok = nulls[0]
                nullparam = "buffer->data" if tok == "occupied" or (tok == "data" and kind == "readmem") else inv.get(tok, tok)
            else: nullparam = "table->data"
        outcome = "allocfail" if (kind == "readmem" and r["ts"] == "throw" and "noobj" in r["tv"].split()) else r["ts"]
        # the injected failure hit the very first request of the call, and that request is the wrapper's own (a temporary
        # string, a helper container, the object itself): the C++ operation was never reached
        oom = 1 if (r["aC"][1] == 1 and r["aC"][0] == 0 and kind in OWN_FIRST_REQUEST and r["ts"] == "throw") else 0
        lines.append("OP %s %s %d %d %d %s %s %s %d" % (kind, wname, h, slot, sel, nullparam, outcome, r["tdg"] or "-", oom))
        idx.append(i)
    lines.append("END")
    return lines, idx


OKC = {"z", "val", "void", "ptr"}
FAILC = {"nz", "null"}


def judge(seq, res, pred, pidx, pend):
    """Property oracle + model comparison for one sequence. Returns (violations, tie_breaks, core_notes).
    violation = (signature, op index, text)"""
    viol, tie, core = [], [], []
    pmap = dict(zip(pidx, pred))
    for i, o in enumerate(seq["ops"]):
        r = res["ops"].get(i)
        if r is None: continue
        w = o.split(); wname = wrapper_of(w)
        if "bad" in r: tie.append("unparsable harness line: " + r["bad"]); continue
        cs, ts = r["cs"], r["ts"]
        # ---- oracle: faithful return
        if ts == "ok":
            if cs not in OKC: viol.append(("status:%s:twin=ok:c=%s" % (wname, cs), i, "%s returned failure (%s) although the C++ operation succeeded" % (wname, cs)))
            elif r["cv"] != r["tv"]: viol.append(("value:%s" % wname, i, "%s result differs from the C++ result: C [%s] vs C++ [%s]" % (wname, r["cv"], r["tv"])))
        else:
            if cs == "void":
                if w[0] == "grad" and "g=nan" not in r["cv"]: viol.append(("value:%s:stale-after-failure" % wname, i, "%s left stale output after the C++ operation failed" % wname))
            elif cs not in FAILC:
                viol.append(("status:%s:twin=%s:c=%s" % (wname, ts, cs), i, "%s returned success (%s) although the C++ operation %s" % (
                    wname, cs, {"fail": "reported failure (returned false/NULL)", "throw": "threw", "inv": "could not even be called (NULL argument / no object)"}[ts])))
            elif "res=stale" in r["cv"]: viol.append(("value:%s:result-not-null-on-failure" % wname, i, "%s did not set *result to NULL on failure" % wname))
        if r["cdg"] != r["tdg"]:
            viol.append(("state:%s" % wname, i, "object state after %s differs between C handle (%s) and C++ twin (%s)" % (wname, r["cdg"], r["tdg"])))
        if w[0] == "free" and ts != "inv" and "data=set" in r["cv"]:
            viol.append(("state:splinetable_free:handle-not-reset", i, "splinetable_free left table->data set"))
        # ---- model prediction
        p = pmap.get(i)
        if p is None: tie.append("no model line for op %d (%s)" % (i, o)); continue
        m = re.match(r"P (\S+) valid=(\d) h=(\S+) af=(\d)", p)
        if not m: tie.append("driver: %s" % p); continue
        if m.group(1) != cs: tie.append("model predicts %s for %s (twin %s), C returned %s" % (m.group(1), wname, ts, cs))
        if m.group(2) != "1": tie.append("model: op %d (%s) is outside the defined scope (cDefined)" % (i, o))
        if w[0] != "nddestroy" and m.group(3) != r["cdg"]:
            tie.append("model: object behind the handle %s, C handle digest %s after %s" % (m.group(3), r["cdg"], o))
        # ---- heap requests (operator new) inside the call
        aC, aT = r["aC"], r["aT"]
        if m.group(4) == "1" and (aC[0] or aT[0] or aC[1] or aT[1]):
            tie.append("the model classifies every call of %s as unable to throw (no heap request), but the C call made %d request(s), the C++ call %d" % (wname, aC[0] + aC[1], aT[0] + aT[1]))
        if aC[1] != aT[1]:
            tie.append("injected allocation failure (%s) fired in %s only: the twin's heap requests are not the wrapper's" % (o, "the C call" if aC[1] else "the C++ call"))
        elif aC != aT and ts != "inv" and cs in (OKC if ts == "ok" else FAILC | {"void"}):
            core.append({"alloc_sequences_differ": wname})
        if aC[1]: core.append({"bad_alloc": wname})
    e = res.get("end")
    if e:
        # what the model's ledger holds when the script ends  vs  what the harness still finds in the C handles / result slots
        m = re.match(r"E tables=(\d+) ndObjs=(\d+) ndArrays=(\d+) buffers=(\d+) ub=(\d)", pend or "")
        if not m: tie.append("driver end line: %r" % pend)
        else:
            mt, mo = int(m.group(1)), int(m.group(2))
            if (mt, mo) != (e["liveH"], e["liveR"]):
                tie.append("model ledger at the end of the script %s, but %d C handle(s) and %d result slot(s) still own something" % (m.group(0), e["liveH"], e["liveR"]))
        complete = e["liveH"] == 0 and e["liveR"] == 0
        if not complete:
            # the generator appends the clean-up from the state it expects; a left-over means its expectation of some
            # operation's outcome is out of date (nothing can be said about leaks then)
            tie.append("the generated script does not release everything it acquired (%d handle(s), %d result(s) left): "
                       "the generator's expectation of an operation's outcome is out of date" % (e["liveH"], e["liveR"]))
        else:
            bad_ops = [i for i, r in res["ops"].items() if r and "bad" not in r and r["dC"] != r["dT"]]
            first = seq["ops"][bad_ops[0]].split()[0] if bad_ops else "?"
            if e["sumC"] != e["sumT"]:
                viol.append(("leak:%s" % (WRAPPER_OF.get(first, first)), bad_ops[0] if bad_ops else None,
                             "after freeing every handle the C API sequence retains %d heap bytes, the same sequence through the C++ API %d (LeakSanitizer: %d bytes on the C side); first differing call: %s"
                             % (e["sumC"], e["sumT"], e["lsan_bytes"], first)))
            elif e["sumC"] != 0:
                # the twin retains the same amount: the leak is inside the C++ object, not in the wrapper; the C caller
                # loses the memory all the same ("releases every resource it allocated")
                core.append({"bytes": e["sumC"], "seq": seq["id"]})
                viol.append(("leak:c++-object", None,
                             "after freeing every handle and result the C API sequence retains %d heap bytes (LeakSanitizer: %d bytes); the same calls through the C++ API retain the same amount, "
                             "so the storage is lost inside the C++ object" % (e["sumC"], e["lsan_bytes"])))
            elif e["lsan_bytes"] > 0:
                viol.append(("leak:lsan-only", None, "LeakSanitizer reports %d leaked bytes on the C side although the byte accounting is balanced" % e["lsan_bytes"]))
            if m:
                model_clean = all(int(x) == 0 for x in m.groups())
                if model_clean != (e["sumC"] == e["sumT"]):
                    tie.append("model ledger after clean-up %s, measured C-vs-C++ heap difference %d" % (m.group(0), e["sumC"] - e["sumT"]))
    return viol, tie, core


def run_driver(ctx, lines, tag):
    inp = os.path.join(ctx.scratch, "drv_%s.in" % tag); outp = inp + ".out"
    with open(inp, "w") as f: f.write("\n".join(lines) + "\n")
    if not ctx.driver_ok() or not ctx.run_driver("C18", inp, outp): return None
    return [l.rstrip("\n") for l in open(outp)]


def evaluate(ctx, exe, seqs, tag, timeout=900):
    """harness + driver + judge for a list of sequences. Returns dict id -> (viol, tie, core), aborts, results"""
    results, aborts = run_harness(ctx, exe, seqs, tag, timeout)
    lines = []; maps = {}
    for q in seqs:
        if q["id"] in results and results[q["id"]]["end"] is not None:
            l, idx = driver_lines(q, results[q["id"]]); maps[q["id"]] = (len(lines), idx); lines += l
    out = run_driver(ctx, lines, tag) if lines else []
    verdicts = {}
    for q in seqs:
        if q["id"] not in maps: continue
        if out is None: verdicts[q["id"]] = ([], ["driver failed"], []); continue
        start, idx = maps[q["id"]]
        pred = out[start + 1:start + 1 + len(idx)]; pend = out[start + 1 + len(idx)] if len(out) > start + 1 + len(idx) else None
        verdicts[q["id"]] = judge(q, results[q["id"]], pred, idx, pend)
    return verdicts, aborts, results


def abort_signature(a):
    """abort:<op>:<kind>, with `:bad_alloc` appended when the dying call had an injected allocation failure"""
    sig = "abort:%s:%s" % (a.get("op"), a.get("kind"))
    seq, i = a.get("seq"), a.get("op_index")
    if seq and i is not None and i < len(seq["ops"]) and any(x.startswith("A:") for x in seq["ops"][i].split()): sig += ":bad_alloc"
    return sig


def shrink(ctx, exe, seq, signature, budget=30):
    """greedy removal of ops while the same signature (or the same abort) reproduces"""
    cur = dict(seq); trials = 0
    def reproduces(cand):
        # a leak must show when the sequence runs a second time in the same process (a one-time allocation of a
        # library, charged to whichever sequence first reaches it, does not)
        pre = [dict(cand, id="shr0")] if signature.startswith("leak:") else []
        v, ab, _ = evaluate(ctx, exe, pre + [cand], "shrink", timeout=120)
        if signature.startswith("abort:"): return any(abort_signature(a) == signature for a in ab)
        return any(s == signature for s, _, _ in v.get(cand["id"], ([], [], []))[0])
    i = 0
    while i < len(cur["ops"]) and trials < budget:
        cand = dict(cur); cand["ops"] = cur["ops"][:i] + cur["ops"][i + 1:]; cand["id"] = "shr"
        trials += 1
        if reproduces(cand): cur = cand
        else: i += 1
    cur["id"] = seq["id"]
    return cur


def build(ctx, mode):
    return ctx.compile("c18h_" + mode, ["c18_harness.cpp"], mode=mode, defines=["PHOTOSPLINE_INCLUDES_SPGLAM"],
                       repo_c=psvlib.FITTER_C, libs=psvlib.FITTER_LIBS)


def regenerate(ctx):
    side_path = os.path.join(ctx.scratch, "c18_side.json")
    r = psvlib.sh([sys.executable, GEN, "--repo", psvlib.REPO, "--json", side_path])
    ctx.note(r.stdout.strip().splitlines()[-1] if r.stdout.strip() else "gen_c18: no output")
    if r.returncode != 0:
        ctx.tie_ok = False; ctx.broken.append({"kind": "translator failed closed", "out": r.stdout[-800:]})
        # The wrapper table can no longer be read off the source, so nothing is shown about this tree.  The search for a
        # concrete failing input goes on with the facts of the last tree the translator could read (committed snapshot):
        # the harness still calls the real wrappers next to their C++ twins under the sanitizers, and the property's own
        # oracle (status <=> twin outcome, crashes, leaks, double releases) does not depend on those facts.
        snap = os.path.join(VERIF, "bin", "props", "C18_side_snapshot.json")
        if os.path.exists(snap):
            ctx.note("translator failed closed: searching for a failing input with the wrapper facts of bin/props/C18_side_snapshot.json")
            ctx.coverage["wrapper_facts"] = "snapshot (translator failed closed on this tree)"
            return json.load(open(snap))
        return None
    return json.load(open(side_path))


def replay_cmd(ctx): return "VERIF_SEED=%d python3 bin/check.py C18 --tier %s" % (ctx.seed, ctx.tier)


def report_all(ctx, exe, seqs, verdicts, aborts, results, stats):
    seen = set()
    by_id = {q["id"]: q for q in seqs}
    for a in aborts:
        if a.get("seq") is None:
            ctx.tie_ok = False; ctx.broken.append({"kind": "harness died", "stderr": a["stderr"][-800:]}); continue
        sig = abort_signature(a)
        stats["aborts"] = stats.get("aborts", 0) + 1
        if sig in seen: continue
        seen.add(sig)
        small = shrink(ctx, exe, a["seq"], sig) if exe else a["seq"]
        opn = a.get("op") or ""
        wname = GETTERS.get(opn[4:], opn) if opn.startswith("get:") else WRAPPER_OF.get(opn, opn)
        what = {"terminate": "an exception escaped from %s into C and terminated the process" % wname,
                "asan": "AddressSanitizer abort inside %s" % wname, "ubsan": "UBSan abort inside %s" % wname,
                "timeout": "%s did not return (hang)" % wname, "signal": "the process died inside %s" % wname,
                "assert": "an assertion of the C++ class failed inside %s (the process aborts)" % wname}[a["kind"]]
        if a["side"] == "twin": what += " (on the C++ twin's side of the call)"
        ctx.report(sig, {"sequence": small, "original_sequence": a["seq"], "failing_op_index": a.get("op_index"), "harness_rc": a["rc"],
                         "stderr_tail": a["stderr"][-1500:], "replay_cmd": replay_cmd(ctx)}, "C18: " + what + "; ops: " + " / ".join(small["ops"]))
    for sid, (viol, tie, core) in verdicts.items():
        for sig, i, text in viol:
            stats["violating_calls"] = stats.get("violating_calls", 0) + 1
            if sig in seen: continue
            seen.add(sig)
            if exe:   # a violation must reproduce when its sequence runs alone in a fresh process (a leak: on the second of two runs there)
                pre = [dict(by_id[sid], id="confirm0")] if sig.startswith("leak:") else []
                v2, ab2, _ = evaluate(ctx, exe, pre + [dict(by_id[sid], id="confirm")], "confirm", timeout=120)
                if not any(s2 == sig for s2, _, _ in v2.get("confirm", ([], [], []))[0]) and not ab2:
                    stats["unconfirmed"] = stats.get("unconfirmed", 0) + 1
                    ctx.note("not reproduced in isolation (ignored): %s in %s" % (sig, sid))
                    if not sig.startswith("leak:"):
                        ctx.tie_ok = False; ctx.broken.append({"kind": "non-reproducible observation", "signature": sig, "sequence": by_id[sid]})
                    continue
            small = shrink(ctx, exe, by_id[sid], sig) if exe else by_id[sid]
            ctx.report(sig, {"sequence": small, "original_sequence": by_id[sid], "failing_op": by_id[sid]["ops"][i] if i is not None else None,
                             "harness_line": (results[sid]["ops"].get(i) or {}).get("raw") if i is not None else results[sid]["end"], "replay_cmd": replay_cmd(ctx)},
                       "C18: " + text + "; ops: " + " / ".join(small["ops"]))
        for t in tie:
            ctx.tie_ok = False
            if len(ctx.broken) < 6: ctx.broken.append({"kind": "model/implementation correspondence", "sequence": by_id[sid], "detail": t})
        for c in core:
            if "bytes" in c: stats["core_leak_sequences"] = stats.get("core_leak_sequences", 0) + 1
            elif "bad_alloc" in c:
                d = stats.setdefault("bad_alloc_injected_and_fired", {}); d[c["bad_alloc"]] = d.get(c["bad_alloc"], 0) + 1
            else:
                d = stats.setdefault("alloc_sequences_differ", {}); d[c["alloc_sequences_differ"]] = d.get(c["alloc_sequences_differ"], 0) + 1


def run(ctx, only=None):
    side = regenerate(ctx)
    ok = ctx.audit()
    if not ok: ctx.lean_build(["psvdriver"])
    if ctx.driver_ok():
        chk = run_driver(ctx, ["CHECK"], "check")
        if chk:
            ctx.note("table check: " + chk[0])
            ctx.coverage["generated_table"] = chk[0]
            if "bad=[]" not in chk[0] or "badfacts=[]" not in chk[0]:
                ctx.broken.append({"kind": "generated table fails the decidable wrapper check", "detail": chk[0]})
    if side is None:
        return
    nseq = 220 if ctx.tier == "quick" else 5000
    stats = {"core_leak_sequences": 0}
    rnd = random.Random(ctx.seed * 1000003 + 18)
    eg = empty_grideval_defined()
    ctx.coverage["grideval_on_object_without_data"] = "exercised (the core refuses it with an exception)" if eg else \
        "not exercised: photospline::splinetable<>::grideval reads through null arrays when the object holds no data (proposed fix: fixes/C18-6.diff)"
    gen = SeqGen(rnd, side, stats, eg)
    seqs = only if only is not None else [gen.sequence("s%d" % k) for k in range(nseq)] + sweep_sequences(rnd) + empty_sequences(rnd, eg)
    stats["sweep_sequences"] = len([q for q in seqs if q["id"].startswith("w")])
    stats["empty_object_sequences"] = len([q for q in seqs if q["id"].startswith("e")])
    modes = ["san"] if ctx.tier == "quick" else ["san", "shipped"]
    evals = 0; distinct = set(); kinds = {}; outcomes = {}; on_empty = {}; after_inj = {}
    for mode in modes:
        exe = build(ctx, mode)
        if not exe:
            ctx.tie_ok = False; ctx.broken.append({"kind": "harness build failed", "mode": mode}); continue
        verdicts, aborts, results = evaluate(ctx, exe, seqs, mode, timeout=1500)
        report_all(ctx, exe, seqs, verdicts, aborts, results, stats)
        for q in seqs:
            res = results.get(q["id"])
            if not res: continue
            for i, o in enumerate(q["ops"]):
                r = res["ops"].get(i)
                if not r or "bad" in r: continue
                evals += 1
                w = o.split(); wname = wrapper_of(w)
                kinds[wname] = kinds.get(wname, 0) + 1
                key = "%s:%s" % (wname, r["ts"]); outcomes[key] = outcomes.get(key, 0) + 1
                if w[0] in ("get", "search") and (r["tdg"] or "").startswith("empty"): on_empty[wname] = on_empty.get(wname, 0) + 1
                if "if-object" in w: after_inj[wname] = after_inj.get(wname, 0) + 1
                if r["ts"] != "ok" or r["cv"]: distinct.add((wname, r["ts"], r["cv"], r["cdg"]))
                if len(ctx.coverage["samples"]) < 6 and r["ts"] in ("fail", "throw") and mode == modes[0]:
                    ctx.coverage["samples"].append({"op": o, "wrapper": wname, "c": r["cs"], "twin": r["ts"], "sequence": q["id"]})
    ctx.coverage["evaluations"] = evals
    ctx.coverage["distinct_nontrivial"] = len(distinct)
    ctx.coverage["rule"] = ("op sequences drawn from VERIF_SEED by bin/props/C18.py (<= 30 ops, 1..3 handles, clean-up appended), executed by harness/c18_harness.cpp; "
                            "a call is non-trivial when the C++ operation failed/threw/was impossible or produced a value; distinct = distinct (wrapper, twin outcome, value, object digest)")
    ctx.coverage["input_distribution"] = {"sequences": len(seqs), "modes": modes, "calls_per_wrapper": kinds, "twin_outcomes": outcomes, **stats}
    fired = stats.get("bad_alloc_injected_and_fired", {})
    ctx.coverage["bad_alloc"] = {"calls_with_an_injected_request_index": stats.get("injected_calls", 0) * len(modes),
                                 "calls_in_which_it_fired_per_wrapper": fired,
                                 "rule": "`A:<k>`: the k-th operator-new request inside the C call throws std::bad_alloc, and the k-th request inside the twin's C++ call as well"}
    if only is None and sum(fired.values()) < (150 if ctx.tier == "quick" else 600):
        ctx.tie_ok = False; ctx.broken.append({"kind": "allocation-failure injection ineffective", "fired": fired})
    # calls of the value wrappers that the C++ class defines on an object without data, made on such an object (measured:
    # the twin's digest says `empty`), and value / evaluation calls made on whatever an injected allocation failure left
    ctx.coverage["value_wrappers_on_objects_without_data"] = on_empty
    ctx.coverage["value_and_evaluation_calls_after_an_injected_failure"] = after_inj
    need = [GETTERS[g] for g in EMPTY_GETTERS] + ["tablesearchcenters"]
    if only is None and any(on_empty.get(n, 0) < 100 * len(modes) for n in need):
        ctx.tie_ok = False; ctx.broken.append({"kind": "the generator no longer reaches objects without data with " + ", ".join(need), "measured": on_empty})
    missing = sorted(set(side["wrappers"]) - set(kinds))
    ctx.coverage["wrappers_never_called"] = missing
    if missing and only is None:
        ctx.tie_ok = False; ctx.broken.append({"kind": "wrappers declared in the header but never exercised", "wrappers": missing})
    ctx.assumptions += [
        "valid handles: value wrappers and wrappers without a `table->data` guard are only called on handles that own an object; evaluation only on loaded tables; splinetable_init only on a handle that owns nothing",
        "objects without data (ndim == 0: after splinetable_init, a failed readsplinefitstable_mem, a failed fit, a convolve / reader that failed after dismantling the table): called are the wrappers whose C++ operation is defined there - splinetable_ndim, splinetable_total_ncoeffs (empty product 1), tablesearchcenters (no dimension to test: success), key access, the writers, permute with the empty permutation, convolve, fit, the readers, free (and grideval when the core refuses it by an exception); never called there: the per-dimension accessors (assert(dim<ndim), null arrays), splinetable_coefficients (`&coefficients[0]` on the null array), ndsplineeval / _gradient / _deriv (`*std::max_element(order, order+0)`)",
        "behaviour classes of the C++ operations (canThrow / canFail in Model/CApi.lean) are read from the headers; the twin observes the actual outcome on every call",
        "operations whose C++ implementation has no defined behaviour on an object without data (evaluation, grid evaluation unless the core tests ndim, the per-dimension getters, get_coefficients) are only called on loaded tables; a crash that the C++ twin would reproduce identically through the C++ API belongs to C20/C07, not to the wrapper (a *leak* that the twin reproduces is reported: signature leak:c++-object)",
        "corrupt inputs are limited to non-FITS bytes, an empty file, a truncation inside the primary header and a truncation after the coefficient HDU (the reader fails after it has built part of the object); arbitrary corruption is C07",
        "allocation failure: std::bad_alloc is produced by the harness' replacement of the global operator new / new[] (the k-th request inside a call throws); failures of malloc inside cfitsio / SuiteSparse / the C fitter are not injected (they do not produce C++ exceptions)",
        "the objects the model's C machine predicts behind the handles are compared by digest with the C side after every call; the semantics of the C++ operation itself is the twin's observation (outcome and digest), the theorem C18_refines holds for every semantics inside the behaviour classes",
    ]


def replay(ctx, path):
    r = json.load(open(path))
    print(json.dumps({k: r[k] for k in r if k in ("what", "sequence", "failing_op")}, indent=1)[:3000])
    seq = r.get("sequence")
    if seq and isinstance(seq, dict) and "ops" in seq:
        run(ctx, only=[seq])
    else:
        run(ctx)
