"""C03 — evaluation result is independent of the evaluation path selected.
Proof: PsV/Props/C03.lean about the dispatch table REGENERATED from the source (tools/gen_dispatch.py) on this run.
Tie: bitwise comparison, in the real binary, of generic members / evaluator objects / call operators / C interface /
gradient lanes, built with and without PHOTOSPLINE_NO_EVAL_TEMPLATES; generic path also bit-compared with the model."""
import json, os, subprocess, sys
from . import evalcommon as E
import psvlib

def kind(orders):
    nd = len(orders)
    if orders in ([2, 2, 2, 3, 2, 2], [2, 2, 2, 5, 2, 2]): return "knownOrder"
    if all(o == orders[0] for o in orders) and orders[0] in (2, 3): return "fixedOrder" if nd <= 8 else "generic(ndim>8)"
    return "coreD" if nd <= 8 else "generic(ndim>8)"

def run(ctx):
    env = dict(os.environ); env["PSV_REPO"] = psvlib.REPO
    r = subprocess.run([sys.executable, os.path.join(psvlib.VERIF, "tools", "gen_dispatch.py")], stdout=subprocess.PIPE, stderr=subprocess.STDOUT, text=True, env=env)
    ctx.note(r.stdout.strip()[-300:])
    if r.returncode != 0:
        ctx.tie_ok = False; ctx.broken.append({"kind": "translator tools/gen_dispatch.py failed closed", "output": r.stdout[-800:]})
    ctx.audit()
    n_t, n_p = (140, 12) if ctx.tier == "quick" else (1500, 40)
    builds = [("shipped", ()), ("shipped", ("PHOTOSPLINE_NO_EVAL_TEMPLATES",))]
    if ctx.tier == "thorough": builds += [("san", ()), ("san", ("PHOTOSPLINE_NO_EVAL_TEMPLATES",))]
    st = {"paths_points": 0, "bits": 0, "mismatch": 0, "tables_by_dispatch": {}}
    seen = set(); dist = {}
    for mode, defs in builds:
        exe = E.build(ctx, mode, defs)
        tag = mode + ("_notmpl" if defs else "_tmpl")
        if not exe:
            ctx.tie_ok = False; ctx.broken.append({"kind": "harness build failed", "build": tag}); continue
        rc, out, err, cases, impl, stats = E.generate(ctx, exe, "C03", n_t, n_p, 70000, tag=tag)
        if rc != 0:
            tbl, lc = E.last_case(cases)
            ctx.violation({"harness_rc": rc, "stderr": err[-3000:], "build": tag, "last_table": tbl, "last_case_line": lc, "replay_cmd": "VERIF_SEED=%d python3 bin/check.py C03 --tier %s" % (ctx.seed, ctx.tier)},
                          "path-comparison harness (%s) %s rc=%d: %s" % (tag, "timed out" if rc == 124 else "aborted", rc, err[-500:]))
            continue
        model = cases + ".model"
        if not ctx.driver_ok() or not ctx.run_driver("EV", cases, model):
            ctx.tie_ok = False; ctx.broken.append({"kind": "driver failed"}); continue
        dist[tag] = json.load(open(stats))
        st["paths_points"] += dist[tag].get("paths_points", 0)
        table = None
        for n, tw, c, i, m in E.triples(cases, impl, model):
            k = c[:1]
            if k == "T":
                table = E.parse_table(tw.split())
                kd = tag + ":" + kind([d["order"] for d in table["dims"]])
                st["tables_by_dispatch"][kd] = st["tables_by_dispatch"].get(kd, 0) + 1
                continue
            if k == "X":
                ctx.report("path-mismatch", {"table": table, "what": c, "values": i, "build": tag, "line": n,
                                             "replay_cmd": "VERIF_SEED=%d python3 bin/check.py C03 --tier %s" % (ctx.seed, ctx.tier)},
                           "evaluation paths disagree bitwise (%s build): %s [%s], orders %s" % (tag, c[2:], i, [d["order"] for d in table["dims"]]))
                continue
            if k == "S":
                if i != m:
                    ctx.tie_ok = False
                    if len(ctx.broken) < 5: ctx.broken.append({"kind": "correspondence searchCenters", "case": c, "impl": i, "model": m})
            elif k in "BEG":
                st["bits"] += 1
                if i != m.strip():
                    st["mismatch"] += 1; ctx.tie_ok = False
                    if len(ctx.broken) < 5: ctx.broken.append({"kind": "correspondence: generic path bits != model (%s line, %s)" % (k, tag), "case": c[:300], "impl": i, "model": m, "orders": [d["order"] for d in table["dims"]]})
                else: seen.add((tag, tw[:200], c))
                if len(ctx.coverage["samples"]) < 4: ctx.coverage["samples"].append({"build": tag, "case": c[:200], "impl": i, "model": m, "orders": [d["order"] for d in table["dims"]]})
    ctx.coverage["evaluations"] = st["bits"] + st["paths_points"]
    ctx.coverage["distinct_nontrivial"] = len(seen)
    ctx.coverage["rule"] = "profile C03 of harness/eval_harness.cpp: 1..9 dims x {all k (k=0..5), {2,2,2,3,2,2}, {2,2,2,5,2,2}, all 2/3, random mixed}, float and double; at each accepted point ~25 bitwise comparisons between generic members, evaluator<float|double> (ndsplineeval, deriv, gradient, call operator), C interface and gradient lanes; each build (templates on/off) separately; non-trivial = returned bits also equal the model's; distinct = distinct (build, table, case)"
    ctx.coverage["input_distribution"] = dist
    ctx.coverage["stats"] = st
    ctx.assumptions += ["compiler-level differences between template instantiations are runtime behaviour: covered by the bitwise comparison only",
                        "loop bodies of the templated cores are not modelled separately (dispatch arguments are; see DESIGN)"]

def replay(ctx, path):
    print(open(path).read()[:4000]); run(ctx)
