"""C19 — estimateMemory bounds the memory requested while loading and convolving.

Proof : PsV/Props/C19.lean (C19_peak_le_estimate, C19_peak_read_le_estimate, C19_live_after_convolve,
        C19_loadable_consistent, C19_convolvable_iff, C19_peak_le_estimate_loadable, decided witnesses;
        deepened: C19_peak_exact, C19_peak_aux_order, C19_lifecycle (with the destructor's call sites),
        C19_peak_cost_le_estimate / _aligned_ / _arena_ (arenas that use more than requested), C19_estimate_mono,
        C19_estimate_le_peak_plus, C19_tight_family, C19_relative_slack_vanishes),
        stated about PsV/Generated/C19.lean, which tools/gen_c19.py regenerates from the working tree on every run
        (size terms of estimateMemory, allocator call sites of read_fits_core and convolve in source order with the
        condition of the second block of a quoted aux value, the reader's shape validation, constants).
Tie   : harness/c19_harness.cpp loads generated files into splinetable<CountingAlloc> and convolves them; per case the
        real estimateMemory value, the measured peak / live bytes, the peak with blocks rounded up to 16 bytes, the bytes
        live after destruction and the exact sequence of allocator requests (sizes) of constructor, convolve and destructor
        must EQUAL what the Lean definitions compute from the file description (exact line equality).  Files whose
        shape the generated validation predicate refuses must be refused by the library, and vice versa.
Oracle: measured peak <= real estimateMemory value (independent of the model)."""
import json, os, subprocess, sys


def parse_case(c):
    w = c.split()
    if not w or w[0] != "C": return None
    v = [int(x) for x in w[1:]]
    objsize, ndim, n, cdim, doconv, nauxk, naux = v[:7]
    rest = v[7:]
    dims = [{"order": rest[3 * i], "nknots": rest[3 * i + 1], "naxes": rest[3 * i + 2]} for i in range(ndim)]
    rest = rest[3 * ndim:]
    aux = [(rest[3 * i], rest[3 * i + 1], rest[3 * i + 2]) for i in range(naux)]
    return {"objsize": objsize, "ndim": ndim, "n": n, "cdim": cdim, "doconv": doconv, "naux_last_knots_hdu": nauxk, "naux": naux, "dims": dims, "aux": aux}


def parse_impl(line):
    w = line.split()
    if not w or w[0] != "est": return None
    return {"est": int(w[1]), "estdef": int(w[3]), "peak": int(w[5]), "live": int(w[7]), "pad16": int(w[9]), "end": int(w[11])}


def run(ctx):
    VERIF = os.path.dirname(os.path.dirname(os.path.dirname(os.path.abspath(__file__))))
    from psvlib import REPO
    # 1. translator: regenerate the Lean tables from the working tree (fail closed)
    gjson = os.path.join(ctx.scratch, "gen_c19.json")
    r = subprocess.run([sys.executable, os.path.join(VERIF, "tools", "gen_c19.py"), "--repo", REPO, "--json", gjson],
                       stdout=subprocess.PIPE, stderr=subprocess.STDOUT, text=True)
    ctx.note(r.stdout.strip()[-300:])
    gen = None
    if r.returncode != 0:
        ctx.tie_ok = False
        ctx.broken.append({"kind": "translator tools/gen_c19.py can no longer parse the source (fail closed)", "output": r.stdout[-600:]})
    else:
        gen = json.load(open(gjson))
        ctx.coverage["generated"] = {"constants": gen["constants"], "naux_counted_in": gen["estimate"]["naux_hdu"],
                                     "size_terms": gen["estimate"]["loop_terms_src"] + gen["estimate"]["fixed_src"] + [gen["estimate"]["rounding_src"]],
                                     "read_sites": gen["read_sites"], "convolve_sites": gen["convolve_sites"],
                                     "reader_rejects": gen["reader_rejects"], "convolve_rejects": gen["convolve_rejects"],
                                     "read_info": gen["read_info"], "convolve_info": gen["convolve_info"],
                                     "destroy_sites": gen["destroy_sites"], "routines_without_allocator_calls": gen["routines_without_allocator_calls"]}
    # 2. proofs about the generated definitions + driver
    ctx.audit()
    # 3. harness from the working tree
    modes = ["shipped"] if ctx.tier == "quick" else ["shipped", "san"]
    n_g, n_i = (500, 150) if ctx.tier == "quick" else (8000, 1500)
    seen, evals, dist = set(), 0, {}
    worst = None
    worst16, leaks = None, 0
    refused = {"files": 0, "transient_above_estimate": 0, "largest_transient_minus_estimate": None}
    for mode in modes:
        exe = ctx.compile("c19_" + mode, ["c19_harness.cpp"], mode=mode)
        if not exe:
            ctx.tie_ok = False; ctx.broken.append({"kind": "harness build failed", "mode": mode}); continue
        for profile, ncases in (("G", n_g if mode == "shipped" else n_g // 4), ("I", n_i)):
            prefix = os.path.join(ctx.scratch, "c19_%s_%s" % (mode, profile))
            rc, out, err = ctx.run([exe, str(ncases), prefix, profile], timeout=900)
            replay_cmd = "VERIF_SEED=%d python3 bin/check.py C19 --tier %s" % (ctx.seed, ctx.tier)
            if rc != 0:
                ctx.tie_ok = False
                ctx.violation({"harness_rc": rc, "mode": mode, "profile": profile, "stderr": err[-2000:], "replay_cmd": replay_cmd},
                              "C19 harness %s (rc=%d) while loading/convolving generated tables: %s" % ("timed out" if rc == 124 else "aborted", rc, err[-500:]))
                continue
            stats = json.load(open(prefix + ".stats.json")); dist[mode + ":" + profile] = stats
            for k in ("reserved_rule_disagreements", "aux_cross_check_failures", "stored_cross_check_failures",
                      "dealloc_size_mismatch_during_load_or_convolve", "tables_leaving_bytes_live_after_destruction"):
                if stats.get(k, 0):
                    ctx.tie_ok = False; ctx.broken.append({"kind": "harness self-check failed: " + k, "count": stats[k]})
            model = prefix + ".model"
            have_model = ctx.driver_ok() and ctx.run_driver("C19", prefix + ".cases", model)
            if not have_model:
                ctx.tie_ok = False; ctx.broken.append({"kind": "driver failed", "profile": profile})
            cases = open(prefix + ".cases").read().splitlines()
            impl = open(prefix + ".impl").read().splitlines()
            mod = open(model).read().splitlines() if have_model else [None] * len(cases)
            if not (len(cases) == len(impl) == len(mod)):
                ctx.tie_ok = False; ctx.broken.append({"kind": "line count mismatch", "cases": len(cases), "impl": len(impl), "model": len(mod)}); continue
            for ln, (c, i, m) in enumerate(zip(cases, impl, mod)):
                model_refuses = m is not None and m.startswith("rejected")
                if model_refuses and not i.startswith("rejected"):
                    # the library loaded a file the generated validation predicate refuses: tie broken; the oracle below still applies
                    ctx.tie_ok = False
                    if len(ctx.broken) < 6:
                        ctx.broken.append({"kind": "reader validation: library loaded a file which the generated predicate readerRejects refuses", "case": c[:300], "impl": i[:120]})
                    m = None
                if i.startswith("rejected"):
                    # ---- the reader's validation: the library refuses the file exactly when the generated predicate does
                    evals += 1
                    if not model_refuses or profile == "G":
                        ctx.tie_ok = False
                        if len(ctx.broken) < 6:
                            ctx.broken.append({"kind": "library rejected a file written by write_fits" if profile == "G" else
                                               "reader validation: library refused a file which the generated predicate readerRejects accepts", "case": c[:300], "impl": i[:200], "model": (m or "")[:60]})
                        continue
                    w = i.split()
                    est_r, peak_r, live_r = int(w[2]), int(w[4]), int(w[6])
                    pc = parse_case(c)
                    refused["files"] += 1
                    seen.add(c)
                    if est_r and pc["objsize"] + peak_r > est_r:
                        refused["transient_above_estimate"] += 1
                        d = pc["objsize"] + peak_r - est_r
                        if refused["largest_transient_minus_estimate"] is None or d > refused["largest_transient_minus_estimate"]["bytes"]:
                            refused["largest_transient_minus_estimate"] = {"bytes": d, "estimate": est_r, "peak_before_refusal": peak_r, "dims": pc["dims"], "message": " ".join(w[7:])[:160]}
                    continue
                pc, pi = parse_case(c), parse_impl(i)
                if pc is None or pi is None:
                    ctx.tie_ok = False; ctx.broken.append({"kind": "unparsable line", "case": c[:200], "impl": i[:200]}); continue
                evals += 1
                card_ok = all(k + v <= 82 and sl <= v for k, v, sl in pc["aux"])
                # ---- property oracle (independent of the model): measured peak within the real estimate
                if pi["peak"] > pi["est"]:
                    ctx.report("peak-exceeds-estimate", {"case_line": c, "file": pc, "impl": pi, "mode": mode, "line": ln, "replay_cmd": replay_cmd,
                                     "how": "the harness regenerates this file from VERIF_SEED (table built with psv::build_table, aux keys via write_key, written with write_fits, unquoted cards added with cfitsio), "
                                            "loads it into splinetable<CountingAlloc>, convolves as declared and compares the byte ledger with estimateMemory"},
                               "C19: %d bytes requested simultaneously from the allocator but estimateMemory(file, n=%d, dim=%d) = %d (ndim=%d, naux=%d, convolution %s)"
                               % (pi["peak"], pc["n"], pc["cdim"], pi["est"], pc["ndim"], pc["naux"], "performed" if pc["doconv"] else "not performed"))
                if not card_ok:
                    ctx.tie_ok = False
                    if len(ctx.broken) < 6: ctx.broken.append({"kind": "assumption violated: strlen(key)+strlen(value) > 80 for an auxiliary card, or stored string longer than the raw card value", "case": c[:300]})
                # ---- correspondence: estimate, peak, live and the full request sequence are equal
                if m is not None and i != m:
                    ctx.tie_ok = False
                    if len(ctx.broken) < 6:
                        wi, wm = i.split(), m.split()
                        k = next((j for j in range(min(len(wi), len(wm))) if wi[j] != wm[j]), min(len(wi), len(wm)))
                        ctx.broken.append({"kind": "correspondence readEvents/convolveEvents/estimate", "case": c[:400], "first_difference_at_token": k,
                                           "impl": " ".join(wi[max(0, k - 3):k + 4]), "model": " ".join(wm[max(0, k - 3):k + 4]),
                                           "impl_head": " ".join(wi[:8]), "model_head": " ".join(wm[:8])})
                if profile == "G" and (pc["doconv"] or pc["naux"] > 0): seen.add(c)
                slack = pi["est"] - pi["peak"]
                if profile == "G":
                    s16 = pi["est"] - pc["objsize"] - pi["pad16"]
                    if worst16 is None or s16 < worst16[0]: worst16 = (s16, pc["ndim"], pc["naux"], pc["n"], pi["est"], pi["pad16"])
                    if pi["end"] != 0: leaks += 1
                if profile == "G" and (worst is None or slack < worst[0]): worst = (slack, pc["ndim"], pc["naux"], pc["n"], pi["est"], pi["peak"])
                if len(ctx.coverage["samples"]) < 5 and profile == "G" and pc["doconv"] and pc["naux"] > 3:
                    ctx.coverage["samples"].append({"ndim": pc["ndim"], "orders": [d["order"] for d in pc["dims"]], "nknots": [d["nknots"] for d in pc["dims"]],
                                                    "naux": pc["naux"], "kernel_knots": pc["n"], "dim": pc["cdim"], "estimateMemory": pi["est"], "measured_peak": pi["peak"],
                                                    "model_line_equal": i == m})
    ctx.coverage["evaluations"] = evals
    ctx.coverage["distinct_nontrivial"] = len(seen)
    ctx.coverage["rule"] = ("files generated from VERIF_SEED by harness/c19_harness.cpp: 1..6 dims, orders 0..5, 0..50 aux keys written through write_key (short and HIERARCH, values of every length "
                            "that fits, with and without embedded quotes; all quoted in the file, so the reader re-allocates them) plus 0..4 unquoted cards (integer, float, logical, HISTORY) added with cfitsio, "
                            "each loaded without convolution and with kernels of 2..8 knots in up to three dimensions; a case is non-trivial when a convolution is performed or the file has aux keys; "
                            "distinct = distinct (file description, configuration) lines; profile I = files the reader must refuse (image axis larger/smaller than nknots-order-1, fewer than 2*order+2 knots): "
                            "library and generated predicate must both refuse")
    ctx.coverage["refused_files"] = refused
    ctx.coverage["input_distribution"] = dist
    if worst16: ctx.coverage["smallest_slack_with_16_byte_blocks"] = {"estimate_minus_object_minus_peak16": worst16[0], "ndim": worst16[1], "naux": worst16[2], "kernel_knots": worst16[3], "estimate": worst16[4], "peak_with_blocks_rounded_up_to_16": worst16[5],
                                                                          "note": "measured by the harness' ledger, equal to the model's padEvents 16 on every line; Lean: C19_peak_aligned_le_estimate"}
    ctx.coverage["tables_with_bytes_live_after_destruction"] = leaks
    if worst: ctx.coverage["smallest_slack"] = {"estimate_minus_peak": worst[0], "ndim": worst[1], "naux": worst[2], "kernel_knots": worst[3], "estimate": worst[4], "peak": worst[5]}
    ctx.assumptions += [
        "the property counts bytes REQUESTED from the allocator (n*sizeof(T)); alignment padding and per-block bookkeeping of a concrete arena are not part of it; what the estimate leaves for them is 40 bytes per auxiliary card and >= 1025 bytes in total (Lean: C19_peak_cost_le_estimate; enough for blocks aligned to <= 16 bytes or 8-byte headers, not for 16-byte headers: C19_arena_overhead_can_exceed)",
        "the destructor is modelled for a table with ndim >= 1 whose extents and periods arrays exist (true of every loaded table: the translator checks that read_fits_core allocates both unconditionally)",
        "temporaries of convolve (rho, trafo, the new coefficient buffer, saved knots) are new[]/unique_ptr memory, not allocator memory, and are outside the property",
        "an auxiliary key and its raw value come from one 80-column card (strlen(key)+strlen(value) <= 80) and the stored string is not longer than the raw value, both checked on every generated file; FLEN_KEYWORD/FLEN_VALUE alone would not suffice",
        "the coefficient image is consistent with the knot count: no longer an assumption - read_fits_core refuses every other file (Lean: C19_loadable_consistent about the generated predicate; tie: profile I)",
        "a file the reader refuses is outside the event model: the requests made before the refusal (the coefficient array is requested before the knot counts are compared) can exceed estimateMemory's value for that file; reported in coverage.refused_files, not a violation (the load fails either way and the guard releases everything)",
        "calls inside `catch` handlers that re-throw (release of the first value block when the second cannot be obtained) and the storage guard's release on a failing path are not modelled: they only lower the level",
        "no wrap-around of size_t / long arithmetic (table sizes far below 2^63)",
        "a FITS header always holds at least one card (the reader allocates aux only under `nkeys > 0`)",
        "convolutions of an order-0 dimension and 1-knot kernels are generated only when photospline::factorial(0) returns promptly (it loops 2^32 times on a tree without the C14 repair)",
    ]


def replay(ctx, path):
    r = json.load(open(path))
    print(json.dumps(r, indent=1)[:3000])
    if "seed" in r: ctx.seed = r["seed"]
    run(ctx)
