"""C08 — interrupted or failing writes never pass as success or load as another table.

Proof: PsV/Props/C08.lean
  control flow  C08_success_implies_all_ok, C08_mem_success_implies_all_ok, C08_cwrapper_zero_implies_all_ok,
                C08_close_error_swallowed (witness for the code as found), C08_close_error_reported,
                C08_keys_before_data (+ C08_keys_after_data_as_found, witness for the call order as found)
  bytes         C08_reader_prefix_stable, C08_roundtrip (all well-formed tables), C08_write_reads_back, C08_prefix_safe
                (unconditional; C08_prefix_safe_partial, C08_roundtrip_instance, C08_prefix_safe_tiny kept)
  disk          C08_failing_call_is_reported, C08_write_fault_is_reported, C08_failure_leaves_no_file,
                C08_single_fault_leaves_no_other_table, C08_success_file_complete (Model/FitsCrash.lean: every call issues
                arbitrary libc operations, each may fail or write short; create/delete/remove act on the file name)
  crash         C08_crash_states_are_prefixes, C08_crash_safe, C08_previous_table_is_not_preserved
Tie (harness/c08_harness.cpp, libc + cfitsio interposition, real code in-process):
  * encoder: PsV.C08.encode t is byte-identical to the file cfitsio writes (length + FNV-1a of every generated table);
    Table.wf t (hypothesis of C08_roundtrip / C08_prefix_safe / C08_crash_safe) is evaluated for every generated table
    (wf=1), as is the round trip itself (rt=1, now a consequence); the recorded operation log of every table is checked
    to write front to back with the encoding as its result (ao=1 fin=1: the other hypotheses of C08_crash_safe);
  * reader: verdict of the REAL reader on every crash-state file (op prefixes, partial last op, byte prefixes), on
    every zeroed-block file and on mutated files (knot vectors / ORDERn / knot counts replaced: the reader's validation)
    against PsV.C08.readBytes on the same bytes; relation: equal verdicts, except that the model may accept
    (as equal) a state the implementation rejects (only conservative direction; counted);
  * control flow: for every injected libc fault and every injected cfitsio step failure the statuses every cfitsio call
    returned are fed to writeFits/writeFitsMem/cWrapper; reported outcome and the sequence of calls must coincide, and
    so must "file / no file" under the name afterwards (diskAfter); for every libc fault the call in which the failing
    operation was issued (or a later one) must report an error (contract Surfaces).
Oracle (independent of the model): reported success => the file on disk (buffer) reads back equal; no file left behind
reads as a different table; no crash-state file (K, B, P) reads as a different table.
Zeroed-block files (Z) are not crash states: they are no prefix of the op log and the writer never creates holes (measured:
ops_creating_holes). They are reported in the evidence (hole_states: rejected / load equal / load as a different table), never
as violations."""
import json, os, re

HARNESS = "c08_harness.cpp"

def _kv(line):
    return dict(m.split("=", 1) for m in line.split() if "=" in m)

def run(ctx):
    ctx.audit()
    exe = ctx.compile("c08", [HARNESS], mode="shipped", extra=["-rdynamic"])
    if not exe:
        ctx.tie_ok = False; ctx.broken.append({"kind": "harness build failed"}); return
    d = os.path.join(ctx.scratch, "io"); os.makedirs(d, exist_ok=True)
    cases, impl, stats, model = [os.path.join(ctx.scratch, n) for n in ("c08.cases", "c08.impl", "c08.stats", "c08.model")]
    rc, out, err = ctx.run([exe, ctx.tier, d, cases, impl, stats], timeout=1500 if ctx.tier == "thorough" else 400)
    replay_cmd = "VERIF_SEED=%d python3 bin/check.py C08 --tier %s" % (ctx.seed, ctx.tier)
    if rc != 0:
        ctx.tie_ok = False
        last = ""
        try: last = open(impl).read().splitlines()[-1]
        except Exception: pass
        ctx.violation({"harness_rc": rc, "stderr": err[-1500:], "last_impl_line": last, "replay_cmd": replay_cmd},
                      "write/read harness %s (rc=%d) after: %s" % ("timed out" if rc == 124 else "aborted", rc, last[:200]))
        return
    if not ctx.driver_ok() or not ctx.run_driver("C08", cases, model):
        ctx.tie_ok = False; ctx.broken.append({"kind": "driver failed"}); return
    C = open(cases).read().splitlines(); I = open(impl).read().splitlines(); M = open(model).read().splitlines()
    if not (len(C) == len(I) == len(M)):
        ctx.tie_ok = False; ctx.broken.append({"kind": "line count mismatch", "cases": len(C), "impl": len(I), "model": len(M)}); return

    reported = set()
    def report(sig, rep, what):
        if sig in reported: return
        reported.add(sig)
        rep = dict(rep); rep["replay_cmd"] = replay_cmd
        ctx.report(sig, rep, what)
    def broken(kind, **kw):
        ctx.tie_ok = False
        if len(ctx.broken) < 6: ctx.broken.append(dict(kind=kind, **kw))

    cnt = {}
    def bump(k, n=1): cnt[k] = cnt.get(k, 0) + n
    tno = -1; tdesc = None; fsize = 0; ops = []; evals = 0; nontrivial = set(); follows_old = 0; follows_new = 0; follows_pre3 = 0; shift_at = None
    holes = {"rejected": 0, "load_equal": 0, "load_as_different_table": 0}; hole_samples = []
    for n, (c, i, m) in enumerate(zip(C, I, M)):
        k = c[:1]
        if m == "bad-input":
            broken("driver could not parse", line=n, case=c[:120]); continue
        if k == "T":
            tno += 1; ops = []; fsize = 0; shift_at = None
            w = c.split(); tdesc = {"table": tno, "ndim": int(w[1])}
            iw, mw = i.split(), m.split()
            kv = _kv(i); tdesc["nblocks"] = int(kv.get("nblocks", 0)); tdesc["nops"] = int(kv.get("nops", 0))
            if iw[1:3] != mw[1:3]:
                broken("encoder: model bytes differ from the file cfitsio wrote", table=tdesc, impl=iw[1:3], model=mw[1:3])
            else: bump("encoder_byte_identical")
            if mw[3] != "rt=1":
                broken("round trip readCoreBytes (encode t) = t.core fails for a generated table (contradicts C08_roundtrip unless wf=0)", table=tdesc, model=mw[3:])
            else: bump("model_roundtrip_ok")
            if len(mw) < 5 or mw[4] != "wf=1":
                broken("a generated table (written and read back by the real code) is not well-formed per Table.wf, the hypothesis of C08_roundtrip / C08_prefix_safe / C08_crash_safe", table=tdesc)
            else: bump("model_wf_ok")
            if kv.get("healthy") != "eq" or kv.get("ret") != "0" or "x1" not in i.split("healthy=")[1][:6]:
                report("healthy-write-does-not-read-back", {"table": tdesc, "impl": i}, "a write without any fault did not read back equal: " + i)
            mm = i.split("mem=")[1].split()
            if mm[0:2] != iw[1:3]: broken("memory file differs from disk file", table=tdesc, impl=i)
            if mm[2] != "eq":
                report("healthy-mem-write-does-not-read-back", {"table": tdesc, "impl": i}, "write_fits_mem without any fault did not read back equal: " + i)
            if len(ctx.coverage["samples"]) < 3: ctx.coverage["samples"].append({"table": tdesc, "impl": i, "model": m})
        elif k == "O":
            w = c.split()
            if w[1] == "W":
                off, ln = int(w[2]), int(w[3])
                if off > fsize: bump("ops_creating_holes")
                if off + ln <= fsize: bump("ops_rewriting")
                if off < fsize and off + ln > 2880:
                    bump("ops_rewriting_behind_first_block")
                    if shift_at is None: shift_at = len(ops)
                fsize = max(fsize, off + ln)
            ops.append(w[1]); bump("ops")
        elif k == "A":
            # hypotheses of C08_crash_safe on the operation log recorded for this table
            if m != "ao=1 fin=1":
                broken("the recorded operation log does not write the file front to back, or its result is not the model's encoding (hypotheses of C08_crash_safe: appendOnly, applyOps = encode)", table=tdesc, model=m)
            else: bump("oplog_append_only_and_complete")
        elif k in "KBPZX":
            evals += 1; bump("crash_" + k if k != "X" else "mutated_files")
            mutkind = None
            if k == "X": i, mutkind = i.split(" kind="); bump("mutated_%s_%s" % (mutkind, i.split()[0]))
            if k in "KBP":
                nontrivial.add((tno, c))
                if i.startswith("diff"):
                    # the state lies behind the point where cfitsio began to move data already written (header block inserted)?
                    shifted = k in "KB" and shift_at is not None and int(c.split()[1]) > shift_at
                    report("crash-state-loads-different:" + k + (":while-data-are-being-moved" if shifted else ""),
                           {"table": tdesc, "crash_state": c, "impl": i, "model": m, "line": n, "first_op_moving_written_data": shift_at},
                           "a crash-state file (%s; K=op prefix, B=partial op, P=byte prefix) is loaded by the real reader as a DIFFERENT table%s" % (
                               c, " (cfitsio was moving coefficient data already written to insert a header block: op %d onwards)" % shift_at if shifted else ""))
            if k == "Z":
                # a zeroed block is no prefix of the op log (outside the quantifier): classified and counted, never a violation
                hk = "rejected" if i == "rej" else "load_equal" if i.startswith("eq") else "load_as_different_table"
                holes[hk] += 1
                if hk == "load_as_different_table" and len(hole_samples) < 3: hole_samples.append({"table": tdesc, "zeroed_block": int(c.split()[1]), "impl": i, "model": m})
            if m == "skip": bump("reader_impl_only")
            elif i == m: bump("reader_agree_" + i.split()[0])
            elif i == "rej" and m.startswith("eq") and k != "X": bump("reader_model_more_permissive")
            else: broken("reader verdicts differ", table=tdesc, state=c[:200], mutation=mutkind, impl=i, model=m)
            if len(ctx.coverage["samples"]) < 8 and i.startswith("eq") and k == "B": ctx.coverage["samples"].append({"table": tdesc, "state": c, "impl": i, "model": m})
        elif k == "E":
            evals += 1
            kv = _kv(i); tag = kv.get("tag", "?"); fv = i.split("file=")[1].split(" tag=")[0]
            variant = c.split()[1]
            new, old = m.split(" | old "); old, pre3 = old.split(" | pre3 "); pre3, mdisk = pre3.split(" | disk ")
            got = "ret=%s steps=%s" % (kv.get("ret"), kv.get("steps", ""))
            kind = re.sub(r"@\d+$", "", tag)
            rep = {"table": tdesc, "entry_point": variant, "fault": tag, "impl": i, "model_repaired": new, "model_as_found": old, "line": n}
            if got != new and got == pre3: rep["model_without_C08-3"] = pre3
            if int(kv.get("fired", "0")) > 0: nontrivial.add((tno, variant, tag)); bump("faults_fired")
            if tag.startswith("healthy"):
                pass
            if kv.get("ret") == "crash":
                report("crash-on-failure:" + kind, rep, "the writer crashed (signal) when %s failed (entry point %s)" % (kind, variant))
            elif kv.get("ret") == "0" and fv not in ("eq x1", "healthy"):
                report("success-reported-but-file-not-equal:" + kind, rep,
                       "writer (%s) reported success although %s failed; what it left behind reads back as: %s" % (variant, kind, fv))
            elif kv.get("ret") != "0" and fv == "diff":
                report("failed-write-leaves-different-table:" + kind, rep,
                       "writer (%s) reported failure for %s but left a file that the reader loads as a DIFFERENT table" % (variant, kind))
            # cfitsio's contract assumed by C08_write_fault_is_reported (Surfaces): the failing fwrite/fclose makes the call
            # it was issued in, or a later one, report an error
            if tag.startswith("libc:") and int(kv.get("fired", "0")) > 0 and not kind.startswith("libc:fflush") and int(kv.get("fcall", "-1")) >= 0:
                stv = c.split("|")[1].split(); fcall = int(kv["fcall"])
                if fcall < len(stv) and stv[fcall] == "1": bump("libc_fault_surfaced_in_the_same_call")
                elif any(x == "1" for x in stv[fcall:]): bump("libc_fault_surfaced_in_a_later_call")
                else:
                    bump("libc_fault_not_surfaced")
                    broken("cfitsio dropped a write/close error: no call at or after the one that issued the failing operation reported it (contract Surfaces)", **rep)
            # does cfitsio go on writing after a failed write? (sticky ENOSPC: every later fwrite fails too and is counted)
            if kind.startswith("libc:enospc_sticky") and int(kv.get("fired", "0")) > 1: bump("runs_where_cfitsio_went_on_writing_after_a_failed_write")
            # the disk model (Model/FitsCrash.lean: diskAfter): file / no file under the name after the run
            if variant in ("cpp", "c") and got == new and fv != "healthy":
                if mdisk == "either": bump("disk_state_either_cleanup_call_reported_an_error_file_" + ("absent" if fv == "absent" else "present"))
                elif (mdisk == "absent") != (fv == "absent"):
                    broken("what the run left under the file name differs from the disk model (diskAfter)", model_disk=mdisk, **rep)
                else: bump("disk_state_agrees_" + mdisk)
            if got == new: follows_new += 1
            elif got == pre3:
                follows_pre3 += 1
                if follows_pre3 == 1:
                    broken("control flow follows the call order as found (coefficient data written before the header keys: fixes/C08-3.diff not applied), not the repaired model", **rep)
            else:
                broken("control flow differs from the repaired model", **rep)
            if got == old: follows_old += 1
            bump("E_" + kind.split(":")[0])
        elif k == "N":
            if i != m: broken("C wrapper null-argument behaviour", impl=i, model=m)
    st = json.load(open(stats))
    if follows_new + follows_pre3 < follows_old:
        ctx.note("implementation follows the as-found control flow (writeFitsOld: close status swallowed) in %d runs, the repaired one in %d" % (follows_old, follows_new))
    if follows_pre3:
        ctx.note("implementation writes the coefficient data before the header keys in %d runs (writeFitsPre3: fixes/C08-3.diff not applied); the repaired order in %d" % (follows_pre3, follows_new))
    if cnt.get("ops_rewriting_behind_first_block"):
        ctx.note("cfitsio moved data which were already in the file: %d write ops rewrite file content behind the first block (a header block inserted in front of written data)" % cnt["ops_rewriting_behind_first_block"])
    if cnt.get("ops_creating_holes"):
        ctx.note("assumption violated: %d write ops start beyond the current end of file (holes)" % cnt["ops_creating_holes"])
    ctx.coverage["evaluations"] = evals
    ctx.coverage["distinct_nontrivial"] = len(nontrivial)
    ctx.coverage["rule"] = ("tables from VERIF_SEED (harness/c08_harness.cpp: ndim 1..5 x size classes from one block per HDU to several hundred blocks; "
                            "periods/extents/aux variants; plus one 3-d table of 36^3 (thorough: 47^3) coefficients with 30 aux keys, whose primary header needs a second block); "
                            "crash states: every op prefix, partial last op (every byte for files <= 20 blocks in the thorough tier, "
                            "sampled otherwise), byte prefixes of the final file; zeroed blocks and mutated files (reader tie only); faults: every op index x {ENOSPC, EFBIG, short write, sticky ENOSPC, fflush, fclose} "
                            "on write_fits and the C wrapper (sampled op indices for files of more than 48 ops in the quick tier, except the header-overflow table), every cfitsio call index on all four entry points. "
                            "non-trivial = distinct crash states (K, B, P) + distinct fault runs whose fault actually fired")
    ctx.coverage["input_distribution"] = st
    ctx.coverage["counts"] = cnt
    ctx.coverage["hole_states"] = dict(holes, total=sum(holes.values()), samples=hole_samples,
        note="final file with one 2880-byte block zeroed, read by the real reader; not crash states (no prefix of the op log, the writer never writes beyond EOF: ops_creating_holes absent), "
             "so outside the property's quantifier and never reported as violations. A zeroed header block, or zeroed knots which break the counts/monotonicity checks, are rejected; "
             "a zeroed block of coefficients or of positive knots replaced by 0.0 in front cannot be told from data in a format without checksums and loads as a different table. "
             "Model and implementation agree on every one of them (else the tie is broken).")
    ctx.coverage["control_flow_runs_matching_repaired_model"] = follows_new
    ctx.coverage["control_flow_runs_matching_as_found_model"] = follows_old
    ctx.coverage["faults_injected"] = st.get("faults_injected"); ctx.coverage["faults_fired"] = st.get("faults_fired")
    ctx.assumptions += [
        "file system = byte string changed by the fwrite/ftruncate calls libcfitsio issues (stdio buffering below fwrite and power-loss reordering below write(2) are not modelled)",
        "cfitsio's disk driver never writes beyond the current end of file (measured per run: ops_creating_holes must be absent), so a file with a zeroed block is not a crash state of the writer; such files are read by both readers and classified in coverage.hole_states (rejected when the zeros hit a header or break the reader's count/knot validation, otherwise loaded as a different table: undetectable in a format without checksums); compared model vs. implementation only",
        "with fixes/C08-3.diff the writer issues all header keys before pixel data, so cfitsio never inserts a header block in front of written data and writes the file strictly front to back (measured per run: ops_rewriting and ops_rewriting_behind_first_block absent, i.e. every op-prefix / partial-op crash state is a byte prefix of the final file, the case C08_prefix_safe_partial speaks about); cfitsio 4.2's ffiblk drops I/O errors while it shifts data (its copy loop takes every status for end-of-file)",
        "the model reader may accept (as equal) a state the implementation rejects: a partially present last header block (cfitsio announces the HDU once the first byte of its END card is there and then fails on the data) or missing zero padding after an image smaller than three blocks (cfitsio reads those through whole-block buffers, larger ones directly); never the other way round",
        "C08_roundtrip / C08_prefix_safe / C08_crash_safe hold for tables satisfying Table.wf (1 <= ndim <= 999, counts and knots as the reader insists, values within their C types, extra cards 80 columns and not named END/ORDER/EXTNAME); wf is evaluated for every generated table (wf=1)",
        "C08_crash_safe assumes the operation log writes front to back and ends in the encoding (evaluated on every recorded log: ao=1 fin=1); C08_write_fault_is_reported / C08_success_file_complete assume cfitsio's contract Surfaces (a failing fwrite/fclose is reported by the call that issued it or a later one; checked on every libc fault run; false for ffiblk, which the writer avoids: C08_keys_before_data)",
        "disk model: fits_create_file(\"!path\") removes a previous file and creates an empty one, on failure the previous file is untouched or already removed; fits_delete_file / remove delete the file or, when they fail, leave it; the libc operations behind each call are arbitrary. With two faults (a failing write with later writes succeeding plus a failing clean-up call) a file which loads as a different table can stay behind: outside the property's quantifier (single failing operation), stated as the hypothesis failures = 1 of C08_single_fault_leaves_no_other_table",
        "realloc failures under cfitsio's memory driver are not injected (cfitsio 4.2 dereferences a null pointer in ffppx before photospline sees a status)",
        "an fflush error is not propagated by cfitsio (ffflsh ignores the driver's flush status); with glibc the data are written by the following fclose, whose status is checked after the repair",
    ]

def replay(ctx, path):
    r = json.load(open(path))
    print(json.dumps(r, indent=1)[:3000])
    ctx.seed = int(r.get("seed", ctx.seed)); ctx.tier = r.get("tier", ctx.tier)
    run(ctx)
