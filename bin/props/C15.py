"""C15 — permuting dimensions relabels axes without changing the function.

Proof: lean/PsV/Props/C15.lean (C15_valid_iff_perm, C15_reject_unchanged, C15_c_wrapper, C15_npos_bijective,
C15_coef_relocated, C15_attrs_permuted, C15_strides_rowmajor, C15_inverse_restores, C15_eval_permuted, ...) about
PsV.Permute.permuteDimensions / splinetablePermute, the model of permute.h with fixes/C15-1.diff applied.

Tie: harness/permute_harness.cpp calls the real splinetable::permuteDimensions and splinetable_permute (built from
the working tree) on every permutation of 1..5-d tables (sampled 6-d) with pairwise different orders, axis lengths,
knots, extents and periods (periods array / NULL / through a FITS write+read), and on malformed arguments; the
whole table afterwards (every array, bit patterns) and the exception kind must equal what `psvdriver C15` (the Lean
model) prints for the same input.

Oracle (independent of the model, evaluated on the implementation's output): slot k holds what slot perm[k] held
for order/nknots/naxes/knot array/extents/period; strides row-major; new[idx o perm] == old[idx] for every
multi-index; inverse permutation restores the dump bit for bit; non-permutations: error and dump unchanged bit for
bit, table arrays not reallocated; evaluation before/after at permuted points within the float rounding envelope.
"""
import itertools, json, os, struct

def dbl(u): return struct.unpack("d", struct.pack("Q", int(u)))[0]

def parse_dump(w, p=0):
    """w: list of tokens; returns (table dict, next index)"""
    nd = int(w[p]); p += 1
    t = {"ndim": nd}
    for name in ("order", "naxes", "strides", "nknots"):
        t[name] = [int(z) for z in w[p:p + nd]]; p += nd
    t["knots"] = []
    for _ in range(nd):
        L = int(w[p]); t["knots"].append(tuple(w[p:p + 1 + L])); p += 1 + L
    t["extents"] = [(w[p + 2 * i], w[p + 2 * i + 1]) for i in range(nd)]; p += 2 * nd
    if w[p] == "1":
        t["periods"] = w[p + 1:p + 1 + nd]; p += 1 + nd
    else:
        t["periods"] = None; p += 1
    nc = int(w[p]); p += 1
    t["coef"] = w[p:p + nc]; p += nc
    return t, p

def row_major(naxes):
    s, acc = [], 1
    for n in reversed(naxes):
        s.append(acc); acc *= n
    return list(reversed(s))

def spec_check(before, after, perm):
    """the property's statement for an accepted permutation; returns list of (signature, text)"""
    bad = []
    nd = before["ndim"]
    if after["ndim"] != nd: return [("ndim", "ndim changed")]
    for name in ("order", "nknots", "naxes", "knots", "extents"):
        want = [before[name][perm[k]] for k in range(nd)]
        if after[name] != want:
            bad.append(("attr:" + name, "%s not in the new order: got %s want %s" % (name, str(after[name])[:120], str(want)[:120])))
    if (before["periods"] is None) != (after["periods"] is None):
        bad.append(("periods-presence", "periods array appeared/disappeared"))
    elif before["periods"] is not None:
        want = [before["periods"][perm[k]] for k in range(nd)]
        if after["periods"] != want:
            bad.append(("periods-not-permuted", "periods not in the new order: got %s want %s (perm %s)" % (
                [dbl(z) for z in after["periods"]], [dbl(z) for z in want], perm)))
    if after["strides"] != row_major(after["naxes"]):
        bad.append(("strides", "strides %s are not row-major for naxes %s" % (after["strides"], after["naxes"])))
    if len(after["coef"]) != len(before["coef"]):
        bad.append(("coef", "coefficient count changed"))
    elif not any(s.startswith("attr:naxes") for s, _ in bad):
        sb = row_major(before["naxes"]); sa = row_major([before["naxes"][perm[k]] for k in range(nd)])
        oc, ac = before["coef"], after["coef"]
        for idx in itertools.product(*[range(n) for n in before["naxes"]]):
            fb = sum(i * s for i, s in zip(idx, sb))
            fa = sum(idx[perm[k]] * sa[k] for k in range(nd))
            if ac[fa] != oc[fb]:
                bad.append(("coef", "coefficient of multi-index %s (old position %d) not found at new position %d" % (list(idx), fb, fa)))
                break
    return bad

def first_diff(a, b):
    ta, tb = a.split(), b.split()
    if ta[0] != tb[0]: return "outcome %s vs %s" % (ta[0], tb[0])
    try:
        da, _ = parse_dump(ta, 1); db, _ = parse_dump(tb, 1)
    except Exception:
        return "unparsable"
    return ",".join(k for k in da if da[k] != db.get(k)) or "?"

def run(ctx):
    ctx.audit()
    modes = ["san"] if ctx.tier == "quick" else ["san", "shipped"]
    evals = 0; seen = set(); dist = {}; tie_lines = 0; max_ratio = 0.0; n_eval_pts = 0
    for mode in modes:
        exe = ctx.compile("permh_" + mode, ["permute_harness.cpp"], mode=mode)
        if not exe:
            ctx.tie_ok = False; ctx.broken.append({"kind": "harness build failed", "mode": mode}); continue
        base = os.path.join(ctx.scratch, "c15_" + mode)
        cases, impl, evf, stats, model = base + ".in", base + ".impl", base + ".ev", base + ".stats", base + ".model"
        rc, out, err = ctx.run([exe, ctx.tier, cases, impl, evf, stats], timeout=900)
        if rc != 0:
            ctx.tie_ok = False
            last = ""
            try:
                with open(cases) as f:
                    for last in f: pass
            except Exception: pass
            keys = ("ERROR:", "SUMMARY:", "runtime error", "Assertion", "TIMEOUT", "terminate")
            tail = [l.strip() for l in err.splitlines() if any(k in l for k in keys)][-8:] or err.splitlines()[-5:]
            ctx.violation({"harness_rc": rc, "mode": mode, "stderr": "\n".join(tail), "last_case_line": last[-3000:],
                           "replay_cmd": "VERIF_SEED=%d python3 bin/check.py C15 --tier %s" % (ctx.seed, ctx.tier)},
                          "permute harness (%s build) %s rc=%d at or after the call in last_case_line: %s" % (
                              mode, "timed out" if rc == 124 else "aborted (sanitizer/assertion/crash)", rc, " | ".join(tail)[:500]))
            # the lines produced before the abort are still compared below
        if not ctx.driver_ok() or not ctx.run_driver("C15", cases, model):
            ctx.tie_ok = False; ctx.broken.append({"kind": "driver failed"}); continue
        if os.path.exists(stats):
            dist = json.load(open(stats))
            co = dist.get("concurrent_outcome")
            if co is None:
                ctx.tie_ok = False; ctx.broken.append({"kind": "the concurrent phase of the permute harness did not run", "mode": mode})
            elif co != 0:
                ctx.report("concurrent-permute-differs" if co > 0 else "concurrent-permute-crash",
                           {"mode": mode, "threads": dist.get("concurrent_threads"), "calls": dist.get("concurrent_permute_calls"), "outcome": co,
                            "replay_cmd": "VERIF_SEED=%d python3 bin/check.py C15 --tier %s" % (ctx.seed, ctx.tier)},
                           ("%d table states produced by permuteDimensions while other threads were permuting OTHER tables differ from the states the same calls produce alone" % co) if co > 0
                           else "the process permuting %s different tables from as many threads at the same time died (signal %d); each of these calls succeeds alone" % (dist.get("concurrent_threads"), -co))
        prev_before = None; prev_ok = False
        nlines = 0
        with open(cases) as fc, open(impl) as fi, open(model) as fm:
            for n, (c, i, m) in enumerate(zip(fc, fi, fm), 1):
                nlines = n
                c = c.rstrip("\n"); i = i.rstrip("\n"); m = m.rstrip("\n")
                kind = c[0]
                dump_before, argtxt = c[2:].split(" # ")
                arg = [int(z) for z in argtxt.split()[1:]]
                iout, ptr = i.rsplit(" ptr=", 1)
                outcome, dump_after = iout.split(" ", 1)
                evals += 1
                before, _ = parse_dump(dump_before.split()); after, _ = parse_dump(dump_after.split())
                nd = before["ndim"]
                # the inputs satisfy the hypotheses of the theorems (PTable.WF): row-major strides, prod(naxes) coefficients
                if kind != "Q" and (nd < 1 or before["strides"] != row_major(before["naxes"]) or len(before["coef"]) != (before["strides"][0] * before["naxes"][0])):
                    ctx.tie_ok = False
                    if len(ctx.broken) < 5: ctx.broken.append({"kind": "generated table is not well-formed (harness bug)", "line": n})
                is_perm = sorted(arg) == list(range(nd))
                accepted = outcome in ("none", "rc0")
                rep = {"line": n, "mode": mode, "entry": {"P": "permuteDimensions", "Q": "permuteDimensions (inverse)", "C": "splinetable_permute"}[kind],
                       "argument": arg, "ndim": nd, "order": before["order"], "naxes": before["naxes"],
                       "periods": None if before["periods"] is None else [dbl(z) for z in before["periods"]],
                       "outcome": outcome, "case_line": c if len(c) < 6000 else c[:6000] + " ...",
                       "replay_cmd": "VERIF_SEED=%d python3 bin/check.py C15 --tier %s" % (ctx.seed, ctx.tier)}
                # ---- tie: implementation == Lean model, everything, bit for bit
                tie_lines += 1
                if iout != m:
                    ctx.tie_ok = False
                    if len(ctx.broken) < 5:
                        ctx.broken.append({"kind": "correspondence permuteDimensions", "differs_in": first_diff(iout, m), "line": n, "mode": mode,
                                           "argument": arg, "ndim": nd, "impl_outcome": outcome, "model_outcome": m.split(" ", 1)[0]})
                # ---- oracle: the property's statement on the implementation's output
                if not is_perm:
                    if accepted:
                        ctx.report("accepted-non-permutation", rep, "argument %s is not a permutation of 0..%d but was accepted" % (arg, nd - 1))
                    elif dump_after != dump_before:
                        ctx.report("reject-changed-table", rep, "argument %s rejected (%s) but the table changed: %s" % (arg, outcome, first_diff("x " + dump_before, "x " + dump_after)))
                    if outcome == "other":
                        ctx.report("reject-unknown-exception", rep, "unexpected exception type/message for %s" % arg)
                    seen.add(hash((dump_before, tuple(arg), kind)))
                else:
                    if not accepted:
                        ctx.report("rejected-permutation", rep, "permutation %s rejected (%s)" % (arg, outcome))
                    else:
                        for sig, text in spec_check(before, after, arg):
                            ctx.report(sig, rep, "%s: %s" % (rep["entry"], text))
                        if kind == "Q" and prev_ok and dump_after != prev_before:
                            ctx.report("inverse-does-not-restore", rep, "inverse permutation %s did not restore the table: differs in %s" % (arg, first_diff("x " + prev_before, "x " + dump_after)))
                        if arg != list(range(nd)): seen.add(hash((dump_before, tuple(arg), kind)))
                if ptr != "1":
                    ctx.report("pointers", rep, "table arrays were reallocated, or the knot pointers are not the relabelled (accepted) / original (rejected) ones")
                if kind == "P": prev_before, prev_ok = dump_before, (is_perm and accepted)
                if len(ctx.coverage["samples"]) < 6 and (n % 97 == 1):
                    ctx.coverage["samples"].append({"entry": rep["entry"], "ndim": nd, "argument": arg, "impl_outcome": outcome, "model_outcome": m.split(" ", 1)[0],
                                                    "naxes_before": before["naxes"], "naxes_after": after["naxes"], "strides_after": after["strides"]})
        if nlines == 0:
            ctx.tie_ok = False; ctx.broken.append({"kind": "no cases produced", "mode": mode})
        # ---- evaluation before/after at the permuted point
        U = 2.0 ** -24
        with open(evf) as fe:
            for l in fe:
                w = l.split()
                line, nterms, nd = int(w[1]), int(w[2]), int(w[3])
                vals = w[4:]
                for k in range(0, len(vals), 3):
                    vb, va, mag = dbl(vals[k]), dbl(vals[k + 1]), dbl(vals[k + 2])
                    n_eval_pts += 1; evals += 1
                    tol = 2 * (nterms + 2 * nd + 4) * U * abs(mag) * 1.01 + 1e-300
                    ok = (vb == va) or (abs(vb - va) <= tol)
                    if mag > 0: max_ratio = max(max_ratio, abs(vb - va) / (U * mag))
                    if not ok or va != va or vb != vb:
                        ctx.report("eval-changed", {"line": line, "mode": mode, "value_before": vb, "value_after": va, "magnitude": mag, "tolerance": tol,
                                                    "replay_cmd": "VERIF_SEED=%d python3 bin/check.py C15 --tier %s" % (ctx.seed, ctx.tier)},
                                   "evaluation at the permuted point changed: %r -> %r (|diff| %.3g > tol %.3g)" % (vb, va, abs(vb - va), tol))
    ctx.coverage["evaluations"] = evals
    ctx.coverage["distinct_nontrivial"] = len(seen)
    ctx.coverage["rule"] = ("one case = one call of permuteDimensions / splinetable_permute on a generated table (harness/permute_harness.cpp, all randomness from VERIF_SEED); "
                            "non-trivial = a non-identity permutation or a malformed argument; distinct = distinct (table dump, argument, entry point)")
    ctx.coverage["input_distribution"] = dist
    ctx.coverage["tie_lines_compared"] = tie_lines
    ctx.coverage["eval_points"] = n_eval_pts
    ctx.coverage["eval_max_abs_diff_over_u_times_magnitude"] = max_ratio
    ctx.assumptions += [
        "model = permute.h with fixes/C15-1.diff applied (periods permuted when not NULL)",
        "ndim >= 1 (the routine writes t_strides[0] unconditionally) and ncoeffs < 2^64, ndim < 2^32: no integer wrap-around; the model uses unbounded naturals",
        "knot arrays / doubles / coefficients are opaque values to the routine (it only moves them): compared as bit patterns, knot arrays identified through the pointer",
        "evaluation before/after compared with |a-b| <= 2*(nterms+2*ndim+4)*2^-24*M*1.01, M = the same table with |coefficients| evaluated at the point (basis values are non-negative), nterms = prod(order+1): "
        "single-precision accumulation of nterms products of ndim+1 factors, twice; exact equality is proved over any commutative ring (C15_eval_permuted)",
        "C15_eval_permuted is about the sum over all coefficients with arbitrary per-axis basis functions; that ndsplineeval computes that sum for B-spline bases is C01/C02's subject",
    ]

def replay(ctx, path):
    r = json.load(open(path))
    print(json.dumps({k: (v if not isinstance(v, str) or len(v) < 800 else v[:800] + " ...") for k, v in r.items()}, indent=1))
    if "seed" in r: ctx.seed = int(r["seed"])
    if r.get("tier") in ("quick", "thorough"): ctx.tier = r["tier"]
    run(ctx)
