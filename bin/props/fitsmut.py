"""Mutations of valid spline FITS files for C07 (all randomness from one random.Random seeded by VERIF_SEED).
A file is parsed into HDUs = {"cards": [80-char str], "data": bytes (unpadded)}; mutators return (class, bytes)."""
import random, struct

BLOCK = 2880


def card(key, val, com=None):
    s = "%-8s= %20s" % (key, val) if not val.startswith("'") else "%-8s= %-20s" % (key, val)
    if com: s += " / " + com
    return s[:80].ljust(80)


def parse(b):
    """valid files only (as written by the library)"""
    hdus, p = [], 0
    while p < len(b):
        cards = []
        while True:
            c = b[p:p+80].decode("latin1"); p += 80
            if c.startswith("END     "): break
            cards.append(c)
        p = (p + BLOCK - 1) // BLOCK * BLOCK
        kv = {c[:8].strip(): c[10:30].strip() for c in cards if c[8:10] == "= "}
        n = int(kv["NAXIS"]); size = abs(int(kv["BITPIX"])) // 8 if n else 0
        for i in range(n): size *= int(kv["NAXIS%d" % (i + 1)])
        hdus.append({"cards": cards, "data": b[p:p+size]})
        p = (p + size + BLOCK - 1) // BLOCK * BLOCK
    return hdus


def serialise(hdus):
    out = b""
    for h in hdus:
        hb = "".join(h["cards"]).encode("latin1") + b"END".ljust(80)
        hb += b" " * (-len(hb) % BLOCK)
        d = h["data"] + b"\0" * (-len(h["data"]) % BLOCK)
        out += hb + d
    return out


def key_of(c): return c[:8].strip()


def find(h, key):
    for i, c in enumerate(h["cards"]):
        if key_of(c) == key: return i
    return None


def set_val(h, key, val, com=None):
    i = find(h, key)
    if i is None: h["cards"].append(card(key, val, com))
    else: h["cards"][i] = card(key, val, com)


def extname(h):
    i = find(h, "EXTNAME")
    return None if i is None else h["cards"][i][10:].split("'")[1].strip()


def clone(hdus): return [{"cards": list(h["cards"]), "data": h["data"]} for h in hdus]


def dbl(x): return struct.pack(">d", x)


def img_ext(name, values, bitpix=-64):
    fmt = ">d" if bitpix == -64 else ">f"
    cards = [card("XTENSION", "'IMAGE   '", "IMAGE extension"), card("BITPIX", str(bitpix)), card("NAXIS", "1"), card("NAXIS1", str(len(values))),
             card("PCOUNT", "0"), card("GCOUNT", "1"), card("EXTNAME", "'%-8s'" % name)]
    return {"cards": cards, "data": b"".join(struct.pack(fmt, v) for v in values)}


INTS = ["0", "1", "2", "3", "4", "5", "6", "7", "9", "17", "100", "65536", "2147483647", "2147483648", "4294967295", "4294967296", "-1", "-2", "-5",
        "-2147483648", "-2147483649", "99999999999999999999", "+3", "003"]
ODD = ["2.0", "2.7", "'2'", "T", "", "1E1", "abc"]


def mutate(rng, base):
    """one random mutation of a valid file (bytes) → (class name, bytes)"""
    h = clone(parse(base))
    nd = int(h[0]["cards"][2][10:30])
    knots = [i for i, x in enumerate(h) if (extname(x) or "").startswith("KNOTS")]
    ext = [i for i, x in enumerate(h) if extname(x) == "EXTENTS"]
    k = rng.randrange(24)
    if k == 0:
        d = rng.randrange(nd); set_val(h[0], "ORDER%d" % d, rng.choice(INTS), "B-Spline Order"); return "order-edit", serialise(h)
    if k == 1:
        d = rng.randrange(nd); set_val(h[0], "ORDER%d" % d, rng.choice(ODD), "B-Spline Order"); return "order-odd-syntax", serialise(h)
    if k == 2:
        d = rng.randrange(nd); i = find(h[0], "ORDER%d" % d); del h[0]["cards"][i]; return "order-drop", serialise(h)
    if k == 3:
        for d in range(nd): del h[0]["cards"][find(h[0], "ORDER%d" % d)]
        h[0]["cards"].append(card("ORDER", rng.choice(INTS[:10] + ["-1", "-3", "2147483647", "4294967295"]), "B-Spline Order")); return "order-legacy-single", serialise(h)
    if k == 4:   # header-only edit of an image axis: data no longer match
        d = rng.randrange(nd); set_val(h[0], "NAXIS%d" % (d + 1), rng.choice(["0", "1", "2", "3", "7", "50", "-1", "-7", "abc"])); return "naxis-header-only", serialise(h)
    if k == 5:   # consistent resize of an image axis
        d = rng.randrange(nd); axes = [int(h[0]["cards"][3 + i][10:30]) for i in range(nd)]
        axes[d] = rng.choice([0, 1, 2, axes[d] + 1, axes[d] - 1 if axes[d] > 1 else 3, axes[d] + 5])
        n = 1
        for a in axes: n *= a
        set_val(h[0], "NAXIS%d" % (d + 1), str(axes[d])); h[0]["data"] = (h[0]["data"] * (n * 4 // max(1, len(h[0]["data"])) + 1))[:n * 4] if h[0]["data"] else b"\0" * (n * 4)
        return "naxis-resize", serialise(h)
    if k == 6:   # NAXIS itself
        v = rng.choice(["0", "1", str(nd + 1), str(nd - 1), "-1", "1000"]); set_val(h[0], "NAXIS", v); return "naxis-count", serialise(h)
    if k == 7:
        j = rng.choice([0] + knots + ext); set_val(h[j], "BITPIX", rng.choice(["-64", "-32", "8", "16", "32", "64", "0", "-16", "7"])); return "bitpix-header-only", serialise(h)
    if k == 8:   # consistent change of the data type of an HDU (float <-> double)
        j = rng.choice([0] + knots + ext); bp = int(h[j]["cards"][1][10:30])
        if bp == -32:
            v = struct.unpack(">%df" % (len(h[j]["data"]) // 4), h[j]["data"]); h[j]["data"] = b"".join(struct.pack(">d", x) for x in v); set_val(h[j], "BITPIX", "-64")
        else:
            v = struct.unpack(">%dd" % (len(h[j]["data"]) // 8), h[j]["data"])
            def f32(x):
                try: return struct.pack(">f", x)
                except OverflowError: return struct.pack(">f", float("inf") if x > 0 else float("-inf"))
            h[j]["data"] = b"".join(f32(x) for x in v); set_val(h[j], "BITPIX", "-32")
        return "bitpix-convert", serialise(h)
    if k == 9 and knots:
        j = rng.choice(knots + ext)
        v = rng.choice(["KNOTS%d" % rng.randrange(nd + 1), "knots0", "Knots1", "KNOTS", "EXTENTS", "extents", "KNOTS00", "KNOTS-1", "XKNOTS0", "", "KNOTS0 X"])
        set_val(h[j], "EXTNAME", "'%-8s'" % v); return "extname-edit", serialise(h)
    if k == 10 and knots:
        j = rng.choice(knots + ext); del h[j]["cards"][find(h[j], "EXTNAME")]
        if rng.random() < 0.5: h[j]["cards"].append(card("HDUNAME", "'KNOTS%d  '" % rng.randrange(nd)))
        return "extname-drop", serialise(h)
    if k == 11 and knots:
        j = rng.choice(knots + ext); del h[j]; return "ext-drop", serialise(h)
    if k == 12 and knots:
        rest = h[1:]; rng.shuffle(rest)
        if rng.random() < 0.3: rest.append(clone([rng.choice(rest)])[0])
        return "ext-reorder-dup", serialise([h[0]] + rest)
    if k == 13 and knots:   # resize a knot vector consistently
        j = rng.choice(knots); n = len(h[j]["data"]) // 8
        m = rng.choice([0, 1, 2, 3, n - 1, n + 1, n + 2, 2 * n, max(1, n - 3)])
        d = h[j]["data"]; h[j]["data"] = (d + d[-8:] * (m + 1))[:8 * m]; set_val(h[j], "NAXIS1", str(m)); return "knots-resize", serialise(h)
    if k == 14 and knots:   # change the dimensionality of an extension
        j = rng.choice(knots + ext); n = len(h[j]["data"]) // 8
        if rng.random() < 0.4:
            h[j]["cards"][2] = card("NAXIS", "0"); del h[j]["cards"][3]; h[j]["data"] = b""
        else:
            h[j]["cards"][2] = card("NAXIS", "2"); h[j]["cards"][3] = card("NAXIS1", "1"); h[j]["cards"].insert(4, card("NAXIS2", str(n)))
        return "ext-naxis", serialise(h)
    if k == 15 and ext:
        j = ext[0]; m = rng.choice([0, 1, 2 * nd - 1, 2 * nd + 1, 4 * nd]); h[j]["data"] = (h[j]["data"] * 3)[:8 * m]; set_val(h[j], "NAXIS1", str(m)); return "extents-resize", serialise(h)
    if k == 16 and knots:   # non-finite / unsorted / constant knot data
        j = rng.choice(knots); n = len(h[j]["data"]) // 8; v = list(struct.unpack(">%dd" % n, h[j]["data"])); w = rng.randrange(6); i = rng.randrange(n)
        if w == 0: v[i] = float("nan")
        elif w == 1: v[i] = float("inf")
        elif w == 2: v[i] = float("-inf")
        elif w == 3 and n > 1: v.reverse(); v[0] = v[0] + 1
        elif w == 4 and n > 1: a = rng.randrange(n - 1); v[a], v[a + 1] = v[a + 1] + 1.0, v[a]
        else: v = [v[0]] * n
        h[j]["data"] = b"".join(dbl(x) for x in v); return "knot-values", serialise(h)
    if k == 17:
        b = bytearray(base)
        for _ in range(rng.choice([1, 1, 2, 4, 8])):
            p = rng.randrange(len(b)) if rng.random() < 0.5 else rng.randrange(min(len(b), 1600)); b[p] ^= 1 << rng.randrange(8)
        return "byte-flip", bytes(b)
    if k == 18:
        b = bytearray(base); hdr_starts = [i for i in range(0, len(b), BLOCK) if b[i:i+8] in (b"XTENSION", b"SIMPLE  ")]
        s = rng.choice(hdr_starts); p = s + rng.randrange(0, 800); b[p] = rng.randrange(256); return "header-byte", bytes(b)
    if k == 19:
        return "truncate-block", base[:BLOCK * rng.randrange(0, len(base) // BLOCK)]
    if k == 20:
        return "truncate-random", base[:rng.randrange(len(base))]
    if k == 21:
        i = find(h[0], "PERIOD0")
        v = rng.choice(["abc", "'x'", "1E400", "-0.", "NaN", "", "1D3", "T"])
        set_val(h[0], "PERIOD0", v); return "period-edit", serialise(h)
    if k == 22:
        w = rng.randrange(5)
        if w == 0: h[0]["cards"].append(card("BSCALE", "2.0")); return "scaling-keys", serialise(h)
        if w == 1: h[0]["cards"].append(card("BZERO", "1.5")); return "scaling-keys", serialise(h)
        if w == 2 and knots: h[knots[0]]["cards"].append(card("BSCALE", "-1.0")); return "scaling-keys", serialise(h)
        if w == 3: h[0]["cards"].append("ORDER0  = 'unterminated".ljust(80)); return "bad-card", serialise(h)
        h[0]["cards"].insert(8, "lower   =                    1".ljust(80)); return "bad-card", serialise(h)
    return foreign(rng, base)


def foreign(rng, base):
    """FITS files that are not spline tables, and non-FITS bytes"""
    w = rng.randrange(9)
    prim = lambda bp, axes, data, extra=(): {"cards": [card("SIMPLE", "T"), card("BITPIX", str(bp)), card("NAXIS", str(len(axes)))] + [card("NAXIS%d" % (i + 1), str(a)) for i, a in enumerate(axes)] + [card("EXTEND", "T")] + list(extra), "data": data}
    if w == 0: return "foreign-image-only", serialise([prim(-32, [3, 2], struct.pack(">6f", 1, 2, 3, 4, 5, 6))])
    if w == 1: return "foreign-int-image", serialise([prim(16, [4], struct.pack(">4h", 1, -2, 3, 4), [card("ORDER0", "1")]), img_ext("KNOTS0", [0, 1, 2, 3, 4, 5])])
    if w == 2:
        bt = {"cards": [card("XTENSION", "'BINTABLE'"), card("BITPIX", "8"), card("NAXIS", "2"), card("NAXIS1", "8"), card("NAXIS2", "3"), card("PCOUNT", "0"), card("GCOUNT", "1"),
                        card("TFIELDS", "1"), card("TFORM1", "'1D      '"), card("EXTNAME", "'KNOTS0  '")], "data": struct.pack(">3d", 1, 2, 3)}
        return "foreign-bintable", serialise([prim(-32, [2], struct.pack(">2f", 1, 2), [card("ORDER0", "0")]), bt])
    if w == 3: return "foreign-empty-primary", serialise([prim(8, [], b""), img_ext("KNOTS0", [0, 1, 2])])
    if w == 4: return "non-fits-random", bytes(rng.randrange(256) for _ in range(rng.choice([0, 1, 79, 80, 2879, 2880, 5000])))
    if w == 5: return "non-fits-text", (b"SIMPLE  =                    T" + b"hello world " * rng.randrange(300))
    if w == 6:   # minimal hand-made valid table (order 0, 1 dim): must be accepted
        return "handmade-valid", serialise([prim(-32, [2], struct.pack(">2f", 1, 2), [card("ORDER0", "0")]), img_ext("KNOTS0", [0, 1, 2])])
    if w == 7:   # hand-made with wrong counts
        o = rng.choice([0, 1, 2, 5]); nk = rng.choice([1, 2, 3, 4, 8]); na = rng.choice([1, 2, 3])
        return "handmade-counts", serialise([prim(-32, [na], struct.pack(">%df" % na, *range(na)), [card("ORDER0", str(o))]), img_ext("KNOTS0", list(range(nk)))])
    return "trailing-garbage", base + bytes(rng.randrange(256) for _ in range(rng.choice([1, 80, 2880])))


def systematic_truncations(base):
    return [("truncate-block", base[:k]) for k in range(0, len(base), BLOCK)]


def boundary_counts():
    """hand-made one-dimensional files around the validity boundary nknots = 2*order+2, naxes = nknots-order-1"""
    out = []
    prim = lambda na, o: {"cards": [card("SIMPLE", "T"), card("BITPIX", "-32"), card("NAXIS", "1"), card("NAXIS1", str(na)), card("EXTEND", "T"), card("ORDER0", str(o))],
                          "data": struct.pack(">%df" % na, *[float(i) for i in range(na)])}
    for o in range(6):
        for nk in (2 * o, 2 * o + 1, 2 * o + 2, 2 * o + 3):
            for d in (-1, 0, 1):
                na = nk - o - 1 + d
                if nk < 1 or na < 0: continue
                out.append(("boundary-counts", serialise([prim(na, o), img_ext("KNOTS0", [float(i) for i in range(nk)])])))
    return out


def card_bitflips():
    """every single-bit flip of the ORDER0 card, of a string card and of the EXTNAME card of a small valid file"""
    prim = {"cards": [card("SIMPLE", "T"), card("BITPIX", "-32"), card("NAXIS", "1"), card("NAXIS1", "2"), card("EXTEND", "T"),
                      card("ORDER0", "0", "B-Spline Order"), card("ABC", "'hello   '")], "data": struct.pack(">2f", 1, 2)}
    base = serialise([prim, img_ext("KNOTS0", [0.0, 1.0, 2.0])])
    offs = [5 * 80, 6 * 80, base.index(b"EXTNAME")]
    out = []
    for o in offs:
        for byte in range(80):
            for bit in range(8):
                b = bytearray(base); b[o + byte] ^= 1 << bit; out.append(("card-bitflip", bytes(b)))
    return out
