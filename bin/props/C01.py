"""C01 — evaluation equals the tensor-product B-spline sum it represents.
Proof: PsV/Props/C01.lean (C01_eval_eq_spec_partial, C01_callOp, C01_degenerate_upper_end).
Tie (i): PsV.ndsplineeval run at IEEE double / float storage must be bit-identical to ndsplineeval<double|float>.
Tie (ii)/oracle: |C++ - specEval@Rat| <= K*u*S + underflow term, S = sum |coef| prod |B| computed exactly by the driver."""
import json, math, os
from fractions import Fraction
from . import evalcommon as E

K_BASE = 4  # envelope constant: K = K_BASE * (N_terms + 4*ndim*(maxorder+1)); measured worst ratio is reported

def degenerate_upper_end(table, xs):
    for d, x in zip(table["dims"], xs):
        k, o, nk = d["knots"], d["order"], d["nknots"]
        na = nk - o - 1
        if x == k[na] and k[na - 1] == k[na]: return True
    return False

def interior(table, xs, cs):
    """hypothesis AllInterior of C01_rounding_envelope_partial: every coordinate inside a non-empty knot interval of the fully
    supported range (generated knot vectors are non-decreasing)"""
    for d, x, c in zip(table["dims"], xs, cs):
        k, o, nk = d["knots"], d["order"], d["nknots"]
        if not (o <= c and c + o + 2 <= nk and k[c] <= x <= k[c + 1] and k[c] < k[c + 1]): return False
    return True

def check_value_line(ctx, table, c, i, m, n, st, mask_modes=False):
    """c: case line 'V prec mask x.. c..' ; i: impl bits ; m: model line."""
    w = c.split(); prec = w[1]; nd = table["ndim"]
    xs = [E.dbl(z) for z in w[3:3 + nd]]; cs = [int(z) for z in w[3 + nd:3 + 2 * nd]]
    mw = m.split()
    st["values"] += 1
    if mw[0] != i:
        ctx.tie_ok = False
        st["bit_mismatch"] += 1
        if len(ctx.broken) < 5:
            ctx.broken.append({"kind": "correspondence: model@IEEE bits != implementation bits", "case": c[:400], "impl_bits": i, "model_bits": mw[0], "table": table})
    if len(mw) < 5: return
    model, spec, mag, cmax = [Fraction(z) for z in mw[1:5]]
    known = degenerate_upper_end(table, xs)
    if model != spec and not known:
        ctx.proof_ok = False
        if len(ctx.broken) < 5: ctx.broken.append({"kind": "model@Rat != specEval although the theorem's hypotheses hold", "case": c[:400], "model": float(model), "spec": float(spec)})
    v = E.dbl(i)
    u = Fraction(1, 2 ** 53) if prec == "d" else Fraction(1, 2 ** 24)
    eta = Fraction(1, 2 ** 1074) if prec == "d" else Fraction(1, 2 ** 149)
    nterms = 1; maxo = 0
    for d in table["dims"]: nterms *= d["order"] + 1; maxo = max(maxo, d["order"])
    K = K_BASE * (nterms + 4 * nd * (maxo + 1))
    what = None
    if v != v or math.isinf(v):
        big = Fraction(2) ** (1023 if prec == "d" else 127)
        if mag < big / (nterms + 1): what = "evaluation returned %r where the exact sum is finite (%.6g)" % (v, float(spec))
    else:
        err = abs(Fraction(v) - spec)
        bound = K * u * mag + eta * nterms * (cmax + 1) * (nd + 2)
        if mag > 0 and not known: st["worst_ratio"] = max(st["worst_ratio"], float(err / (u * mag)) / K if err > eta * nterms * (cmax + 1) * (nd + 2) else 0.0)
        if not mask_modes and w[2] == "0" and mag > 0 and not known:
            # every accepted, non-degenerate point: hypotheses of C01_rounding_envelope_all_partial (margins and knots included)
            if interior(table, xs, cs): st["interior_only_cases"] = st.get("interior_only_cases", 0) + 1
            # the theorem's bound (C01_rounded_eval_near_spec_partial with C01_envelope_linear: 2*K*eps*S, K = 3+ndim(7 maxorder+3)+2 N)
            eps = u / (1 - u); Kthm = 3 + nd * (7 * maxo + 3) + 2 * nterms
            st["interior_cases"] = st.get("interior_cases", 0) + 1
            if 2 * Kthm * eps <= 1 and err > eta * nterms * (cmax + 1) * (nd + 2):
                st["worst_ratio_proved"] = max(st.get("worst_ratio_proved", 0.0), float(err / (2 * Kthm * eps * mag)))
        if err > bound:
            what = "|impl - spec| = %.6g exceeds the rounding envelope %.6g (impl %.17g, exact %.17g)" % (float(err), float(bound), v, float(spec))
    if what:
        sig = "degenerate-upper-end" if known else "value-mismatch"
        ctx.report(sig, {"table": table, "x": xs, "x_bits": w[3:3 + nd], "centers": cs, "precision": prec, "impl_bits": i, "impl": v,
                         "spec": "%s" % spec, "case_line": c, "table_line": st.get("_table_line"), "replay_cmd": "VERIF_SEED=%d python3 bin/check.py %s --tier %s" % (ctx.seed, ctx.prop, ctx.tier)}, "C01 oracle: " + what)
    else:
        st["distinct"].add(c)
    if known: st["known_cases"] += 1

def run_profile(ctx, profile, n_t, n_p, maxcoef, modes=("shipped",), line_checker=check_value_line):
    st = {"values": 0, "bit_mismatch": 0, "worst_ratio": 0.0, "distinct": set(), "known_cases": 0, "lookups": 0}
    dist = {}
    for mode in modes:
        exe = E.build(ctx, mode)
        if not exe:
            ctx.tie_ok = False; ctx.broken.append({"kind": "harness build failed", "mode": mode}); continue
        rc, out, err, cases, impl, stats = E.generate(ctx, exe, profile, n_t, n_p, maxcoef, tag=mode)
        if rc != 0:
            ctx.tie_ok = False
            tbl, lc = E.last_case(cases)
            ctx.violation({"harness_rc": rc, "stderr": err[-3000:], "mode": mode, "last_table": tbl, "last_case_line": lc, "replay_cmd": "VERIF_SEED=%d python3 bin/check.py %s --tier %s" % (ctx.seed, ctx.prop, ctx.tier)},
                          "evaluation harness (%s build) %s rc=%d: %s" % (mode, "timed out" if rc == 124 else "aborted (sanitizer/assertion/crash)", rc, err[-500:]))
            continue
        model = cases + ".model"
        if not ctx.driver_ok() or not ctx.run_driver("EV", cases, model):
            ctx.tie_ok = False; ctx.broken.append({"kind": "driver failed"}); continue
        dist = json.load(open(stats))
        table = None
        for n, tw, c, i, m in E.triples(cases, impl, model):
            k = c[:1]
            if k == "T": table = E.parse_table(tw.split()); st["_table_line"] = tw; continue
            if k == "X":
                ctx.violation({"table": table, "case": c, "impl": i, "line": n}, "entry points disagree: %s %s" % (c, i)); continue
            if k == "S":
                st["lookups"] += 1
                if i != m:
                    ctx.tie_ok = False
                    if len(ctx.broken) < 5: ctx.broken.append({"kind": "correspondence searchCenters", "table": table, "case": c, "impl": i, "model": m})
                xs = [E.dbl(z) for z in c.split()[1:]]
                bad = E.lookup_oracle(table, xs, i)
                if bad: ctx.report("lookup:" + bad, {"table": table, "x": xs, "impl": i}, "lookup oracle: " + bad)
            elif k == "G":
                st["values"] += 1
                if i != m.strip():
                    st["bit_mismatch"] += 1; ctx.tie_ok = False
                    if len(ctx.broken) < 5: ctx.broken.append({"kind": "correspondence: gradient lanes bits != model", "case": c[:300], "impl": i, "model": m, "table": table})
            elif k == "U":
                # another entry point at the point of the preceding V line: same exact value, same model bits
                if st.get("_lastV") and st["_lastV"][0].split()[1:] == c.split()[1:]:
                    line_checker(ctx, table, "V" + c[1:], i, m.split()[0] + " " + " ".join(st["_lastV"][1].split()[1:]), n, st)
                    st["other_entry_points"] = st.get("other_entry_points", 0) + 1
            elif k in "VD":
                if k == "V": st["_lastV"] = (c, m)
                line_checker(ctx, table, c, i, m, n, st)
                if len(ctx.coverage["samples"]) < 4:
                    ctx.coverage["samples"].append({"case": c[:300], "impl_bits": i, "model": m[:200], "orders": [d["order"] for d in table["dims"]]})
    return st, dist

def run(ctx):
    ctx.audit()
    if ctx.tier == "quick": st, dist = run_profile(ctx, "C01", 220, 25, 3000)
    else: st, dist = run_profile(ctx, "C01", 1200, 45, 8000, modes=("shipped", "san"))
    ctx.coverage["evaluations"] = st["values"] + st["lookups"]
    ctx.coverage["distinct_nontrivial"] = len(st["distinct"])
    ctx.coverage["rule"] = "harness/eval_harness.cpp profile C01: random tables (1..9 dims, orders 0..5, minimum and longer knot vectors, uniform/irregular/repeated/wide-range knots, float coefficients incl. 0, -0, denormal, huge) and points (knots, float neighbours, margins, support end, interior); non-trivial = lookup succeeded, value finite and inside the rounding envelope; distinct = distinct (table, point, precision) lines"
    ctx.coverage["input_distribution"] = dist
    ctx.coverage["bit_exact_values"] = st["values"] - st["bit_mismatch"]
    ctx.coverage["worst_envelope_ratio"] = st["worst_ratio"]
    ctx.coverage["value_cases_under_rounding_theorem"] = st.get("interior_cases", 0)
    ctx.coverage["of_which_interior"] = st.get("interior_only_cases", 0)
    ctx.coverage["worst_ratio_vs_proved_bound"] = st.get("worst_ratio_proved", 0.0)
    ctx.coverage["known_finding_cases"] = st["known_cases"]
    ctx.assumptions += ["floating-point rounding: envelope K*u*S with K=%d*(N_terms+4*ndim*(maxorder+1)) plus an absolute underflow term; proved for value evaluation at every accepted non-degenerate point without underflow/overflow (C01_rounding_envelope_all_partial: the proved bound 2*K_thm*eps*S is below this envelope; the worst measured error/proved-bound ratio is reported); the absolute underflow term and derivative evaluations (C02) are measured, not proved" % K_BASE,
                        "compiler: no FMA contraction / x87 (checked by the bit-exact tie)"]

def replay(ctx, path, line_checker=check_value_line):
    st = {"values": 0, "bit_mismatch": 0, "worst_ratio": 0.0, "distinct": set(), "known_cases": 0, "lookups": 0}
    def handler(table, tw, c, i, m):
        st["_table_line"] = tw
        if c[:1] in "VD": line_checker(ctx, table, c, i, m, 0, st)
        elif c[:1] == "S":
            bad = E.lookup_oracle(table, [E.dbl(z) for z in c.split()[1:]], i)
            if bad: ctx.report("lookup:" + bad, {"table": table, "impl": i, "table_line": tw, "case_line": c}, "lookup oracle: " + bad)
        elif i.strip() != m.split()[0] if m.split() else True:
            ctx.tie_ok = False; ctx.broken.append({"kind": "correspondence bits", "case_line": c, "impl": i, "model": m})
    if not E.replay_case(ctx, path, handler): run(ctx)
