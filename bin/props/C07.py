"""C07 — reading any bytes either fails cleanly or yields a safe, well-formed table.
Proof: PsV/Props/C07.lean (C07_read_total, WF_implies_C04, readFixed_sound, counterexamples for the code before the repair;
the object step by step: C07_guarded_refines, C07_rejected_leaves_empty, C07_accepted_object, C07_reuse; composition with C04/C05 for
every accepted table: C07_accepted_lookup_safe, C07_accepted_eval_reads_owned, C07_read_then_use_safe, C07_accepted_eval_wf; bytes:
C07_bytes_framed, C07_bytes_total).  Model: PsV/Model/FitsRead.lean (`readFixed` = read_fits_core with fixes/C07-1.diff, `cleanup` = the storage guard of commit 907b348, `destroy` = ~splinetable).
Second model run (driver C07, command L): the step-by-step reader on the object (`readGuarded`) and 12 deterministic lookup probes on
`Table.lookupAxes` of the table read, compared with the real searchcenters on the table read_fits returned (harness field lk=).
Tie: mutated files → real read_fits_mem / read_fits / constructor / C wrappers (each file in a forked child under ASan/UBSan with a
hang timeout) vs `readFixed (decodeFits bytes)` whenever the Lean decoder accepts the bytes and the store is inside the scope of the
abstract cfitsio model; oracle (independent of the model): every returned table is well-formed (fitscommon.wf_table), every failed
read leaves the object empty and reusable, both readers / the constructor / the C wrappers agree, the battery (lookup, all
evaluators, ==, write_fits_mem + re-read, destructor) runs clean."""
import hashlib, json, os, random
from . import fitscommon as F
from . import fitsmut as M
import psvlib


# classes in which the HDU sizes declared in the headers do not match the bytes present: cfitsio's disk and memory drivers
# notice the end of the data at different calls (outside the model; each reader is still checked on its own)
CFITSIO_PARSER_CLASSES = ("truncate-block", "truncate-random", "byte-flip", "header-byte", "naxis-header-only", "bitpix-header-only", "trailing-garbage", "naxis-count")


def lines(path):
    with open(path) as f:
        return [l.rstrip("\n") for l in f]


def run(ctx, only=None):
    ctx.audit()
    nfiles, nbase = (1200, 16) if ctx.tier == "quick" else (10000, 40)
    if os.environ.get("PSV_C07_N"): nfiles = int(os.environ["PSV_C07_N"])
    import time
    replay_cmd = "VERIF_SEED=%d python3 bin/check.py C07 --tier %s" % (ctx.seed, ctx.tier)
    rng = random.Random(ctx.seed * 7919 + 7)

    def broken(kind, **kw):
        ctx.tie_ok = False
        if len(ctx.broken) < 6: ctx.broken.append(dict(kind=kind, **kw))

    gen = ctx.compile("c06h_san", ["c06_harness.cpp"], mode="san")
    bat = ctx.compile("c07h_san", ["c07_harness.cpp"], mode="san")
    if not gen or not bat:
        broken("harness build failed"); return
    base = os.path.join(ctx.scratch, "c07")
    rc, out, err = ctx.run([gen, "gen", str(nbase), base + ".gen", base + ".genimpl", base + ".genstats", "300", ctx.scratch], timeout=900)
    if rc != 0:
        ctx.tie_ok = False
        ctx.violation({"harness_rc": rc, "stderr": err[-2000:], "replay_cmd": replay_cmd}, "generator of valid base files aborted: %s" % err[-300:]); return
    bases = [bytes.fromhex(l.split()[2]) for l in lines(base + ".gen") if l.startswith("B ")]
    bases.sort(key=len)
    # hand-written replay?
    files = []
    if only is not None:
        files = [(only["class"], bytes.fromhex(only["hex"]))]
    else:
        for i, b in enumerate(bases): files.append(("valid-unmutated", b))
        for b in bases[:3]: files += M.systematic_truncations(b)
        files += M.boundary_counts()
        flips = M.card_bitflips()
        files += flips if ctx.tier != "quick" else rng.sample(flips, 150)
        while len(files) < nfiles:
            b = bases[min(int(rng.random() ** 2 * len(bases)), len(bases) - 1)]   # prefer the small files
            try: files.append(M.mutate(rng, b))
            except Exception as ex:   # a mutator that cannot apply to this base
                files.append(M.foreign(rng, b))
    infile, outfile, goodfile = base + ".in", base + ".out", base + ".good"
    with open(infile, "w") as f:
        for i, (cls, b) in enumerate(files): f.write("m%d:%s %s\n" % (i, cls, b.hex()))
    with open(goodfile, "w") as f: f.write(bases[0].hex() + "\n")
    t0 = time.time()
    rc, out, err = ctx.run([bat, "battery", infile, outfile, ctx.scratch, goodfile], timeout=3000)
    ctx.note("battery on %d files (%.1f MB): %.1fs" % (len(files), sum(len(b) for _, b in files) / 1e6, time.time() - t0))
    if rc != 0:
        broken("battery driver process failed", rc=rc, stderr=err[-500:]); return
    drv_in, drv_out = base + ".drv", base + ".model"
    with open(drv_in, "w") as f:
        for i, (cls, b) in enumerate(files): f.write("R m%d:%s %s\n" % (i, cls, b.hex()))
    t0 = time.time()
    if not ctx.driver_ok() or not ctx.run_driver("C06", drv_in, drv_out):
        broken("driver failed"); return
    # second model run: the step-by-step reader on the object (readGuarded) and the lookup view of the read table
    drv2_in, drv2_out = base + ".drv2", base + ".model2"
    with open(drv2_in, "w") as f:
        for i, (cls, b) in enumerate(files): f.write("L m%d:%s %s\n" % (i, cls, b.hex()))
    if not ctx.run_driver("C07", drv2_in, drv2_out):
        broken("driver C07 failed"); return
    ctx.note("model drivers: %.1fs" % (time.time() - t0))
    R2, Lm, Lg = lines(outfile), lines(drv_out), lines(drv2_out)
    if len(R2) != 2 * len(files) or len(Lm) != len(files) or len(Lg) != len(files):
        broken("line counts differ", counts=[len(files), len(R2), len(Lm), len(Lg)]); return
    R = [(R2[2 * i], R2[2 * i + 1]) for i in range(len(files))]

    classes, verdicts, modelled, nontrivial = {}, {}, {"compared": 0, "undecodable": 0, "unmodelled": 0}, set()
    reported = set()
    lookups = {"files": 0, "probes": 0, "accepted": 0, "rejected": 0}
    for (cls, b), (rd, rm), m, mg in zip(files, R, Lm, Lg):
        classes[cls] = classes.get(cls, 0) + 1
        name = rd.split(" ")[1]
        rep = {"class": cls, "hex": b.hex() if len(b) <= 120000 else b[:120000].hex(), "bytes": len(b), "impl_disk": rd[:3000], "impl_mem": rm[:2000], "model": m[:600], "replay_cmd": replay_cmd}

        def report(sig, what):
            # one report per signature and run: the same defect shows up in hundreds of files
            if sig in reported: return
            reported.add(sig)
            ctx.report(sig, rep, what)

        if " CRASH " in rm[:200]:
            w = rm.split(" ")
            stage, how = w[3], w[4]
            verdicts["crash-" + stage] = verdicts.get("crash-" + stage, 0) + 1
            if stage == "mem" and "in mem_read" in rm and "heap-buffer-overflow" in rm and "battery" not in rm:
                # cfitsio's memory driver reads past the end of a buffer that is shorter than its headers claim
                report("cfitsio-mem_read-overread", "read_fits_mem on a buffer that is shorter than the HDU sizes declared in it: cfitsio 4.2 mem_read copies past the end of the caller's buffer (%s file): %s" % (cls, rm[:500]))
            else:
                kind = "hang" if how == "HANG" else ("heap-buffer-overflow" if "heap-buffer-overflow" in rm else "SEGV" if "SEGV" in rm else "bad-free" if ("bad-free" in rm or "attempting free" in rm) else "runtime-error" if "runtime error" in rm else "abort")
                report("crash:%s:%s:%s" % (stage, cls, kind), "reading a %s file (%s readers) and operating on the result is not memory-safe / does not terminate (%s): %s" % (cls, stage, how, rm[:600]))
            if stage == "disk": continue
        head, _, dump = rd.partition(" | ")
        kv = dict(x.split("=", 1) for x in head.split(" ")[2:])
        real = kv["disk"]
        vk = "ok" if real == "ok" else "err:" + real.split(":")[1]
        verdicts[vk] = verdicts.get(vk, 0) + 1
        if real == "ok":
            t = F.parse_table(dump.split())
            why = F.wf_table(t)
            if why: report("not-well-formed:" + cls, "read_fits returned a table that is not well-formed (%s) for a %s file" % (why, cls))
            else: nontrivial.add(hashlib.sha1(dump.encode()).hexdigest())
            b_ = dict(x.split(":") for x in kv["bat"].split(","))
            if b_.get("rewrite") != "1": report("rewrite:" + cls, "a table returned by the reader could not be re-serialised and read back identically (%s)" % kv["bat"])
        else:
            if kv["empty"] != "1": report("half-built:" + cls, "after a failed read (%s) the object is not empty (ndim / pointers still set)" % real)
            elif kv["reuse"] != "1": report("not-reusable:" + cls, "after a failed read (%s) the object cannot be read into again" % real)
            nontrivial.add("err:" + real + ":" + cls)
        if cls in ("valid-unmutated", "handmade-valid") and real != "ok":
            report("valid-rejected:" + cls, "a valid spline file is rejected: %s" % real)
        if (kv["ctor"] == "ok") != (real == "ok"): report("ctor-differs:" + cls, "constructor from path (%s) and read_fits (%s) disagree" % (kv["ctor"], real))
        if (kv["cdisk"] == "0") != (real == "ok"): report("c-status:" + cls, "readsplinefitstable status %s does not reflect the reader verdict %s" % (kv["cdisk"], real))
        if " CRASH " not in rm[:200]:
            mhead, _, mdump = rm.partition(" | ")
            km = dict(x.split("=", 1) for x in mhead.split(" ")[2:])
            if mdump not in ("", "-"):
                why = F.wf_table(F.parse_table(mdump.split()))
                if why: report("not-well-formed:" + cls, "read_fits_mem returned a table that is not well-formed (%s) for a %s file" % (why, cls))
            # the two back ends must agree on success / failure and on the table (for files cut short cfitsio's drivers report the end of file at different calls, so the throw site may differ)
            if cls not in CFITSIO_PARSER_CLASSES and ((km["mem"] == "ok") != (real == "ok") or (real == "ok" and km["same"] != "1")): report("readers-differ:" + cls, "read_fits (%s) and read_fits_mem (%s, same table: %s) disagree" % (real, km["mem"], km["same"]))
            if km["mem"] != "ok" and km["empty"] != "1": report("half-built:" + cls, "after a failed read_fits_mem (%s) the object is not empty" % km["mem"])
            elif km["mem"] != "ok" and km["reuse"] != "1": report("not-reusable:" + cls, "after a failed read_fits_mem (%s) the object cannot be read into again" % km["mem"])
            if (km["cmem"] == "0") != (km["mem"] == "ok"): report("c-status:" + cls, "readsplinefitstable_mem status %s does not reflect the reader verdict %s" % (km["cmem"], km["mem"]))
        # ---- model tie
        mw = m.split(" ")
        if len(mw) < 3: mw = ["R", name, "undecodable"]
        if mw[2] in ("undecodable", "unmodelled"):
            modelled[mw[2]] += 1; continue
        modelled["compared"] += 1
        if mw[2] == "err":
            mv = "err:" + mw[3]
            if mw[4] != "clean": broken("model: cleanup after a failed read is not clean", model=m[:300])
        else:
            mv = "ok"
            if mw[3] != "1": broken("model returned a table that fails its own WF", model=m[:300])
        if mv != real or (mv == "ok" and m.partition(" | ")[2] != dump):
            if os.environ.get("PSV_C07_DEBUG"): open(os.environ["PSV_C07_DEBUG"], "a").write(m + "\n" + rd + "\n")
            broken("repaired reader model vs real reader", cls=cls, model=m[:400], impl=rd[:400], hex=rep["hex"][:20000])
        # ---- second tie: guarded read on the object, lookup on the view of the read table
        gw = mg.split(" ")
        if len(gw) < 4 or gw[2] != mw[2] or (gw[2] == "err" and gw[3] != mw[3]):
            broken("step-by-step reader (readGuarded) and readFixed print different verdicts", cls=cls, model=m[:200], model2=mg[:200])
        elif gw[2] == "err":
            if gw[4] != "guard=empty": broken("model: guarded read does not leave the empty object", model2=mg[:300])
        else:
            g = dict(x.split("=", 1) for x in gw[3:])
            if g.get("guard") != "done": broken("model: object after an accepted read is not complete / not destructible", model2=mg[:300])
            if mv == real == "ok" and kv.get("lk", "-") != "-":
                lookups["files"] += 1
                pr = kv["lk"].split(";")
                lookups["probes"] += len(pr)
                lookups["rejected"] += sum(1 for x in pr if x == "R")
                lookups["accepted"] += sum(1 for x in pr if x not in ("R", "X"))
                if g.get("lk") != kv["lk"]:
                    broken("lookup on the model's view of the read table vs real searchcenters on the table read_fits returned", cls=cls, model=g.get("lk"), impl=kv["lk"], hex=rep["hex"][:20000])
        if len(ctx.coverage["samples"]) < 5 and real != "ok":
            ctx.coverage["samples"].append({"class": cls, "real": real, "model": " ".join(mw[2:5])})
    ctx.coverage["evaluations"] = len(files)
    ctx.coverage["distinct_nontrivial"] = len(nontrivial)
    ctx.coverage["rule"] = ("files = valid base files (harness generator, VERIF_SEED), systematic truncation at every 2880 boundary of 3 of them, random mutations "
                            "(bin/props/fitsmut.py, random.Random(VERIF_SEED)); distinct non-trivial = distinct well-formed tables returned + distinct (error site, mutation class) pairs")
    ctx.coverage["input_distribution"] = {"mutation_classes": classes, "real_verdicts": verdicts, "model_tie": modelled, "lookup_tie": lookups}
    if only is None and (lookups["files"] == 0 or lookups["accepted"] == 0 or lookups["rejected"] == 0):
        broken("lookup tie did not run on any accepted table (or saw only one kind of outcome)", lookups=lookups)
    ctx.assumptions += [
        "cfitsio's own parser is outside the model: files the Lean decoder rejects (byte flips in structural cards, truncation, integer BITPIX, BSCALE/BZERO, non-FITS) are covered by the sanitizer battery and the oracle only",
        "model scope (`modelledE`): standard keyword names, unique keys, ORDERn values in plain integer syntax, PERIODn in plain decimal syntax, sizes below 2^63",
        "allocation failures inside read_fits_core are C19/C20's topic; the cleanup model covers the throw sites of the source",
    ]


def replay(ctx, path):
    r = json.load(open(path))
    print(json.dumps({k: (v if k != "hex" else v[:200] + "...") for k, v in r.items()}, indent=1)[:3000])
    if "hex" in r and "class" in r: run(ctx, only=r)
    else: run(ctx)
