"""C14 — convolution produces the true convolution with the unit-area kernel spline.
Proof: PsV/Props/C14.lean (blossom_is_convolution = Strøm's identity for the table, all inputs; unit_area for every
kernel; conv_shape, transfer_is_mode_product, factorial_spec, norm_spec, divdiff lemmas, ...).
Tie: real splinetable::convolve / splinetable_convolve / convoluted_blossom / factorial vs PsV.convolve at the
F32 carrier (double working precision, float coefficient storage): orders, knot counts, naxes, strides, knots,
extents, every raw blossom (transfer-matrix entry before normalisation) and every convolved coefficient bit for bit.
Oracle: exact rational convolution integral (PsV.ConvSpec.specConv, independent of blossoming) at the evaluation
points; |C++ value - spec| <= K * 2^-24 * S.  Exact side check: the table produced by the model at Rat, evaluated
exactly, equals the spec exactly (Strøm's identity; a theorem since the deepening round — driver_exact_check_holds —
kept as run-time validation of its hypotheses and of the driver).
Input classes: besides irregular / integer / short-dyadic knots (pairwise sums either all distinct or bit-equal) the
harness draws a GRID family: table and kernel knots on a common grid with a non-dyadic step (m*0.1, accumulated v += h,
shifted a + m*h, scaled s*(m*h), irregular subsets of grid nodes, kernels from grid nodes / differences of table knots /
half, third and double grid / mixed with off-grid knots / perturbed by a few ulp), so that pairwise sums which coincide
mathematically are partly bit-equal and partly one or two ulp apart.  The doubles are taken as given: specification and
exact model work with the exact rationals of the stored knots (there the sums are distinct, very close numbers); the
expected knot vector is the sorted IEEE sums, compared exactly.  Evaluation points include knots inside such clusters
and the doubles adjacent to a knot.  (Seeded change C14-4: snapping nearly equal sums to duplicates.)"""
import json, os, struct
from fractions import Fraction

EPS = Fraction(1, 2**24)

def dbl(u): return struct.unpack("d", struct.pack("Q", int(u)))[0]
def flt(u): return struct.unpack("f", struct.pack("I", int(u)))[0]
def frac(s):
    a, b = s.split("/"); return Fraction(int(a), int(b))

def parse_case(line):
    w = line.split(); nd, dim, n = int(w[1]), int(w[2]), int(w[3]); p = 4
    ck = [dbl(z) for z in w[p:p+n]]; p += n
    dims = []
    for _ in range(nd):
        o, nk = int(w[p]), int(w[p+1]); ext = [dbl(w[p+2]), dbl(w[p+3])]
        ks = [dbl(z) for z in w[p+4:p+4+nk]]; p += 4 + nk
        dims.append({"order": o, "nknots": nk, "extent": ext, "knots": ks})
    nc = int(w[p]); coef = [flt(z) for z in w[p+1:p+1+nc]]; p += 1 + nc
    npts = int(w[p]); xs = [dbl(z) for z in w[p+1:]]
    pts = [xs[i*nd:(i+1)*nd] for i in range(npts)]
    return {"ndim": nd, "dim": dim, "kernel_knots": ck, "dims": dims, "ncoef": nc, "coef_head": coef[:8], "points": pts}

def sections(line):
    d = {}
    for part in line.split(" | "):
        w = part.split()
        if w: d[w[0]] = w[1:]
    return d

def build(ctx, mode):
    return ctx.compile("c14_" + mode, ["c14_harness.cpp"], mode=mode)

def compare(ctx, cases, impl, model, state, tag):
    """walk the three files; returns number of evaluations"""
    with open(cases) as fc, open(impl) as fi, open(model) as fm:
        C, I, M = fc.read().splitlines(), fi.read().splitlines(), fm.read().splitlines()
    if not (len(C) == len(I) == len(M)):
        ctx.tie_ok = False; ctx.broken.append({"kind": "line count", "cases": len(C), "impl": len(I), "model": len(M), "mode": tag})
    for n, (c, i, m) in enumerate(zip(C, I, M), 1):
        if c.startswith("F "):
            state["evals"] += 1
            k = int(c.split()[1])
            import math
            want = math.factorial(k) % 2**32
            if int(i) != want:
                ctx.report("factorial:%d" % k, {"n": k, "impl": i, "want": want, "replay_cmd": "python3 bin/check.py C14"},
                           "factorial(%d) returned %s, expected %d (normalisation q!(k-1)!/(k+q-1)! of the transfer matrix)" % (k, i, want))
            if i != m:
                ctx.tie_ok = False
                if len(ctx.broken) < 6: ctx.broken.append({"kind": "correspondence factorial", "n": k, "impl": i, "model": m})
            continue
        si, sm = sections(i), sections(m)
        if "dims" not in si or "dims" not in sm:
            ctx.tie_ok = False
            if len(ctx.broken) < 6: ctx.broken.append({"kind": "malformed line", "line": n, "impl": i[:200], "model": m[:200]})
            continue
        case = None
        tie_bad = [k for k in ("dims", "kn", "ext", "bl", "co") if si.get(k) != sm.get(k)]
        if tie_bad:
            case = parse_case(c)
            ctx.tie_ok = False
            if len(ctx.broken) < 6:
                k = tie_bad[0]; a, b = si.get(k, []), sm.get(k, [])
                pos = next((j for j in range(min(len(a), len(b))) if a[j] != b[j]), min(len(a), len(b)))
                ctx.broken.append({"kind": "correspondence convolve", "sections": tie_bad, "first_diff": {"section": k, "index": pos, "impl": a[pos:pos+3], "model": b[pos:pos+3]},
                                   "orders": [d["order"] for d in case["dims"]], "dim": case["dim"], "kernel_knots": case["kernel_knots"], "line": n, "mode": tag})
        # shape oracle (the statement of the property, evaluated directly on the implementation's output)
        w = c.split(); nd, dim, nk = int(w[1]), int(w[2]), int(w[3])
        case = case or parse_case(c)
        d0 = case["dims"][dim]
        dims_i = [int(z) for z in si["dims"]]
        want_order = d0["order"] + nk - 1; want_nknots = d0["nknots"] * nk
        shape_bad = None
        na = []
        for j, d in enumerate(case["dims"]):
            o, nkn, nax, st = dims_i[4*j:4*j+4]; na.append(nax)
            if j == dim:
                if o != want_order: shape_bad = "order %d, expected %d" % (o, want_order)
                elif nkn != want_nknots: shape_bad = "nknots %d, expected %d" % (nkn, want_nknots)
            elif (o, nkn) != (d["order"], d["nknots"]): shape_bad = "dimension %d changed" % j
            if nax != nkn - o - 1: shape_bad = "naxes[%d] = %d is not nknots-order-1" % (j, nax)
        st = 1
        for j in reversed(range(nd)):
            if dims_i[4*j+3] != st: shape_bad = "stride[%d] = %d is not row-major (%d)" % (j, dims_i[4*j+3], st)
            st *= na[j]
        kn = [dbl(z) for z in si["kn"]]; p = 0
        rho_f = None
        for j, d in enumerate(case["dims"]):
            nkn = dims_i[4*j+1]; ks = kn[p:p+nkn]; p += nkn
            if j == dim:
                sums = sorted(a + b for a in d["knots"] for b in case["kernel_knots"])
                rho_f = sums
                if ks != sums: shape_bad = shape_bad or "knot vector of the convolved dimension is not the sorted pairwise sums"
            elif ks != d["knots"]: shape_bad = shape_bad or "knots of dimension %d changed" % j
        ex_, nr_ = near_coincident(rho_f) if rho_f is not None else (0, 0)
        if nr_: state["near_cases"] += 1
        if nr_ and ex_: state["near_and_exact_cases"] += 1
        state["near_pairs"] += nr_
        state["evals"] += 1
        if shape_bad:
            ctx.report("shape", {"case": case, "case_line": c, "impl_dims": si["dims"], "line": n}, "C14 shape: " + shape_bad)
        # value oracle
        vals = si.get("val", []); pt = sm.get("pt", [])
        area = sm.get("area", ["0/1"])[0]
        if frac(area) != 1:
            ctx.tie_ok = False; ctx.broken.append({"kind": "spec kernel area is not 1", "area": area, "line": n})
        K = d0["nknots"] - d0["order"] - 1 + 4
        allzero = all(int(z) in (0, 0x80000000) for z in si["co"])
        rho = sorted(a + b for a in d0["knots"] for b in case["kernel_knots"])
        Smax = max([frac(pt[3*j+1]) for j in range(len(vals)) if 3*j+2 < len(pt)] + [Fraction(0)])
        for j, v in enumerate(vals):
            if v == "reject": continue
            if 3*j+2 >= len(pt): break
            if rho.count(case["points"][j][dim]) >= 2:
                # x sits exactly on a repeated knot of the new vector (coinciding pairwise sums): the evaluator divides
                # 0/0 on the degenerate interval (C01's domain, measure zero) -- not part of this comparison
                state["skipped_repeated_knot"] += 1; continue
            state["evals"] += 1
            spec, S, ex = frac(pt[3*j]), frac(pt[3*j+1]), frac(pt[3*j+2])
            vd, vf = [dbl(z) for z in v.split(":")]
            if ex != spec:
                state["exact_mismatch"] += 1
                ctx.tie_ok = False
                if len(ctx.broken) < 6: ctx.broken.append({"kind": "exact model table differs from the exact convolution integral", "x": case["points"][j], "spec": float(spec), "model_table_value": float(ex), "orders": [d["order"] for d in case["dims"]], "dim": dim, "kernel_knots": case["kernel_knots"], "line": n})
            if vd != vd or abs(vd) == float("inf"):
                err = None
            else:
                err = abs(Fraction(vd) - spec)
            Sf = S + Smax / 2**16      # absolute floor 2^-40*max S: the stored knots are the rounded sums
            bound = K * EPS * Sf
            if Sf != 0 and err is not None:
                r = float(err / (EPS * Sf))
                if nr_ and r > state["max_ratio_near"]: state["max_ratio_near"] = r
                if r > state["max_ratio"]: state["max_ratio"] = r; state["max_ratio_at"] = {"orders": [d["order"] for d in case["dims"]], "dim": dim, "n": nk, "x": case["points"][j], "K": K}
            # operator() works in float: its own envelope is C01's business; sanity only (same table, same point)
            if err is None or err > bound:
                sig = "order0-all-zero" if (d0["order"] == 0 and allzero and spec != 0) else "value"
                if err is not None and spec != 0 and abs(Fraction(vd) + spec) <= bound and d0["order"] % 2 == 0: sig = "even-order-negated"
                # pure round-off of the modelled operation sequence: the C++ is bit-identical to the model at F32 *and*
                # the same model in exact arithmetic equals the exact integral for this very input
                if sig == "value" and not (set(tie_bad) & {"dims", "kn", "bl", "co"}) and ex == spec and err is not None: sig = "roundoff-amplification"
                if sig == "roundoff-amplification" and len(state["roundoff_cases"]) < 40:
                    state["roundoff_cases"].append({"line": n, "orders": [d["order"] for d in case["dims"]], "dim": dim, "n": nk, "x": case["points"][j][dim],
                                                    "err_over_eps_S": float(err / (EPS * Sf)) if Sf != 0 else None, "K": K,
                                                    "nearly_coinciding_sums": near_coincident(rho)[1], "kernel_knots": case["kernel_knots"]})
                ctx.report(sig, {"case": case, "case_line": c, "x": case["points"][j], "impl_value": vd, "spec": float(spec), "S": float(S), "K": K, "all_coefficients_zero": allzero, "line": n,
                                 "replay_cmd": "python3 bin/check.py C14 --replay <this file>"},
                           "C14: convolved table at x=%r gives %r, exact convolution integral is %r (|diff| = %.3g > %d*2^-24*S = %.3g)%s" % (
                               case["points"][j], vd, float(spec), float(err) if err is not None else float("nan"), K, float(bound),
                               "; every convolved coefficient is zero (order 0: factorial(0))" if sig == "order0-all-zero" else
                               "; the value is the NEGATIVE of the convolution (even order: `if (k % 2 != 0) norm *= -1`)" if sig == "even-order-negated" else
                               "; round-off of the double-precision divided differences (C++ bit-identical to the model, exact model equals the integral)" if sig == "roundoff-amplification" else ""))
            else:
                key = (n, tag, j)
                if S != 0: state["seen"].add((c[:200], j))
            if len(ctx.coverage["samples"]) < 5:
                ctx.coverage["samples"].append({"orders": [d["order"] for d in case["dims"]], "dim": dim, "kernel_knots": case["kernel_knots"], "x": case["points"][j], "impl": vd, "spec": float(spec), "S": float(S)})

def run_files(ctx, exe, ncases, npts, tag, state, replay_case=None):
    base = os.path.join(ctx.scratch, "c14" + tag)
    cases, impl, stats = base + ".in", base + ".impl", base + ".stats"
    cmd = [exe, str(ncases), str(npts), cases, impl, stats] + ([replay_case] if replay_case else [])
    rc, out, err = ctx.run(cmd, timeout=240)
    if rc != 0:
        ctx.tie_ok = False
        what = "convolve harness %s (rc=%d): %s" % ("timed out" if rc == 124 else "aborted", rc, err[-800:])
        last = ""
        try: last = open(cases).read().splitlines()[-1]
        except Exception: pass
        ctx.violation({"harness_rc": rc, "stderr": err[-3000:], "last_case_line": last, "mode": tag,
                       "replay_cmd": "VERIF_SEED=%d python3 bin/check.py C14 --tier %s" % (ctx.seed, ctx.tier)}, what)
        return None
    model = cases + ".model"
    if not ctx.driver_ok() or not ctx.run_driver("C14", cases, model):
        ctx.tie_ok = False; ctx.broken.append({"kind": "driver failed"}); return None
    st = json.load(open(stats))
    if st.get("factorial0_ms", 0) > 1000:
        ctx.note("factorial(0) took %d ms and returned %d (unrepaired loop `for (unsigned i = n-1; i > 1; i--)`); only one order-0 case is run" % (st["factorial0_ms"], st["factorial0_value"]))
    compare(ctx, cases, impl, model, state, tag)
    if not replay_case:
        co = st.get("concurrent_outcome")
        if co is None:
            ctx.tie_ok = False; ctx.broken.append({"kind": "the concurrent phase of the convolution harness did not run", "tag": tag})
        elif co != 0:
            ctx.report("concurrent-convolve-differs" if co > 0 else "concurrent-convolve-crash",
                       {"tag": tag, "threads": st.get("concurrent_threads"), "calls": st.get("concurrent_convolve_calls"), "outcome": co,
                        "replay_cmd": "VERIF_SEED=%d python3 bin/check.py C14 --tier %s" % (ctx.seed, ctx.tier)},
                       ("%d tables convolved while other threads were convolving OTHER tables differ from the same convolutions made alone" % co) if co > 0
                       else "the process convolving different tables from %s threads at the same time died (signal %d); each of these calls succeeds alone" % (st.get("concurrent_threads"), -co))
    return st

def near_coincident(rho):
    """(number of adjacent bit-equal sorted sums, number of adjacent sums within 8 ulp that are not equal)"""
    ex = nr = 0
    for a, b in zip(rho, rho[1:]):
        if a == b: ex += 1
        elif b - a <= 8 * 2.0**-52 * max(abs(a), abs(b)): nr += 1
    return ex, nr

def new_state():
    return {"roundoff_cases": [], "near_cases": 0, "near_and_exact_cases": 0, "near_pairs": 0, "max_ratio_near": 0.0, "evals": 0, "seen": set(), "max_ratio": 0.0, "max_ratio_at": None, "exact_mismatch": 0, "skipped_repeated_knot": 0}

def finish_cov(ctx, state, dist):
    if not ctx.tie_ok and ctx.broken:
        # a broken correspondence is always shown, also when property violations were reported
        kinds = sorted({b.get("kind", "?") + (":" + ",".join(b["sections"]) if "sections" in b else "") for b in ctx.broken if isinstance(b, dict)})
        ctx.violation({"broken": ctx.broken, "replay_cmd": "VERIF_SEED=%d python3 bin/check.py C14 --tier %s" % (ctx.seed, ctx.tier)},
                      "model/implementation correspondence of convolve no longer holds (%s): %s" % ("; ".join(kinds), json.dumps(ctx.broken[0], default=str)[:400]), nfi=True)
    ctx.coverage["evaluations"] = state["evals"]
    ctx.coverage["distinct_nontrivial"] = len(state["seen"])
    ctx.coverage["rule"] = ("cases (table, dimension, kernel, points) drawn from VERIF_SEED by harness/c14_harness.cpp; an evaluation is non-trivial when the lookup on the "
                            "convolved table succeeds, the magnitude sum S is non-zero and the value is inside the envelope; distinct = distinct (case, point)")
    ctx.coverage["input_distribution"] = dist
    ctx.coverage["max_error_over_2^-24_S"] = state["max_ratio"]
    ctx.coverage["max_error_at"] = state["max_ratio_at"]
    ctx.coverage["points_on_repeated_new_knot_skipped"] = state["skipped_repeated_knot"]
    ctx.coverage["known_finding_roundoff_cases"] = state["roundoff_cases"]
    ctx.coverage["cases_with_nearly_coinciding_pairwise_sums"] = state["near_cases"]
    ctx.coverage["cases_with_nearly_and_exactly_coinciding_pairwise_sums"] = state["near_and_exact_cases"]
    ctx.coverage["adjacent_sums_within_8ulp_not_equal"] = state["near_pairs"]
    ctx.coverage["max_error_over_2^-24_S_in_cases_with_nearly_coinciding_sums"] = state["max_ratio_near"]
    if ctx.tier in ("quick", "thorough") and state["evals"] > 200 and state["near_cases"] < 10:
        ctx.note("only %d cases with nearly coinciding pairwise sums were generated (grid family of harness/c14_harness.cpp)" % state["near_cases"])
    ctx.coverage["envelope"] = "|ndsplineeval<double>(convolved table, x) - specConv(x)| <= K * 2^-24 * S, K = naxes_old[dim] + 4, S = specConv with |coefficients| (+ 2^-16 of the largest S of the case as absolute floor)"
    ctx.assumptions += [
        "table knots in the convolved dimension and kernel knots strictly increasing and finite (divided differences divide by knot differences); n >= 2 kernel knots",
        "order + n - 1 <= 12 so that the unsigned factorials do not wrap (factorialC is modelled mod 2^32 and compared for n <= 16)",
        "coefficient envelope K = naxes_old + 4 single-precision roundings (float accumulation over the old axis, float storage); double-precision error of the blossoms is not bounded by a theorem, only observed (max ratio in coverage)",
        "the identity 'blossom transfer matrix = convolution' (Strøm) is a Lean theorem (blossom_is_convolution: exact arithmetic, row-major well-formed table, strictly increasing knots, n >= 2, order+n-1 <= 12, point in the new knot range); the exact Rat comparison on sampled cases remains as validation of these hypotheses; nothing is proved about double/float round-off",
        "the doubles of knots and kernel are taken as given: pairwise sums that coincide on a decimal grid only up to round-off are distinct knots, one or two ulp apart, for code, model and specification alike (exact rationals of the stored doubles); nothing is assumed about what the caller 'meant'",
        "std::sort is modelled by List.mergeSort: equal doubles are bit-identical (no -0 sums are generated), so the sorted sequence is unique"]

def run(ctx):
    ctx.audit()
    ncases, npts = (70, 10) if ctx.tier == "quick" else (500, 14)
    modes = ["shipped"] if ctx.tier == "quick" else ["shipped", "san"]
    state = new_state(); dist = {}
    for mode in modes:
        exe = build(ctx, mode)
        if not exe:
            ctx.tie_ok = False; ctx.broken.append({"kind": "harness build failed", "mode": mode}); continue
        st = run_files(ctx, exe, ncases if mode == "shipped" else ncases // 4, npts, mode, state)
        if st: dist[mode] = st
    finish_cov(ctx, state, dist)

def replay(ctx, path):
    r = json.load(open(path))
    print(json.dumps({k: v for k, v in r.items() if k != "case_line"}, indent=1)[:3000])
    ctx.audit()
    state = new_state()
    line = r.get("case_line")
    exe = build(ctx, "shipped")
    if exe and line:
        f = os.path.join(ctx.scratch, "replay.case"); open(f, "w").write(line + "\n")
        st = run_files(ctx, exe, 0, 0, "replay", state, replay_case=f)
        finish_cov(ctx, state, {"replay": st})
    else:
        run(ctx)
