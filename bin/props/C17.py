"""C17 — grid evaluation agrees with pointwise evaluation.
Proof: PsV/Props/C17.lean (unflatten_flatten, slice_is_mode_product, grideval_eq_spec, grideval_eq_pointwise_partial …)
about PsV.gridEval / PsV.sliceMultiply / PsV.bsplineBasis (lean/PsV/Model/Glam.lean), the definitions `psvdriver C17` runs.
Tie (harness/c17_harness.cpp, real code in-process, shipped-flags and sanitizer builds):
  B  bsplinebasis()  vs PsV.bsplineBasis at IEEE double: bit for bit;
  S  slicemultiply() vs PsV.sliceMultiply on small integers (exact in double): ranges, listed index set and every value exact;
  T  the same on sparse tensors with large index ranges (flattened sections of 2^16..2^22 columns: index arithmetic beyond 16 bits);
  G  splinetable::grideval and the C wrapper splinetable_grideval vs PsV.gridEval at Rat: ranges exact, listed index set
     exact, every value inside the proved rounding envelope (C17_grideval_rounding_envelope_tie_partial):
     |impl - exact| <= gfac(u/(1-u), K) * majorant, u = 2^-53, K = Sum_d(5*order_d+1) + ndim + N, where the majorant (the cell
     of PsV.gridEval on |coef| = Sum|coef|Prod B), N (PsV.NdSparse.nlisted: non-zero terms of the cell) and
     PsV.gridRoundCount = Sum_d(5*order_d+1) are printed by the driver; worst ratio |impl-exact|/(2^-53*majorant) and K in coverage.
Oracle (independent of the model): PsV.gridSpec = Sum_idx coef*Prod_d B_d (exact, Rat) on the implementation's output: value
within the envelope, index ranges = grid lengths, unlisted => spec value exactly 0; real pointwise ndsplineeval<float> at every
grid point strictly inside the knot range within gfac(K)*majorant + K_f*2^-24*Sum|coef|Prod|B| wherever the right-continuous
basis of grideval and the evaluation convention coincide (PsV.gridSpec == PsV.specEval, decided exactly; by
grideval_eq_pointwise that is everywhere except at a knot >= knots[naxes] of multiplicity > order, and the check asserts it).
Concurrent phase: a handful of the generated tables/grids are evaluated again by 6 threads at the same time (C++ member and C entry
point) and every result is compared bit for bit with the single-threaded one (the model is a pure function); a crash or hang of that
phase (forked child, alarm) is reported with the tables/grids.
Index arithmetic: the driver evaluates PsV.sliceIdxSafe / PsV.gridIdxSafe (hypothesis of slicemultiply_int_arith_exact /
grideval_int_arith_exact: every flattened section has < 2^31 columns) on every case; a case outside it breaks the tie."""
import json, os, struct, sys
from fractions import Fraction
import psvlib

if hasattr(sys, "set_int_max_str_digits"): sys.set_int_max_str_digits(0)
U53 = Fraction(1, 2 ** 53)
U24 = Fraction(1, 2 ** 24)

_gf = {}
def gfac53(K):
    """gfac eps K = (1+eps)^K - 1 at eps = u/(1-u), u = 2^-53: IEEE double round-to-nearest is RelErr eps 1 (C01_standard_model)"""
    if K not in _gf: _gf[K] = Fraction(2 ** 53, 2 ** 53 - 1) ** K - 1
    return _gf[K]

def dbl(u): return struct.unpack("d", struct.pack("Q", int(u)))[0]
def frac(s):
    a, b = s.split("/"); return Fraction(int(a), int(b))
def fbits(u):
    d = dbl(u)
    if d != d or d in (float("inf"), float("-inf")): return None
    return Fraction(d)

def parse_G(w):
    nd = int(w[1]); p = 2; dims = []
    for _ in range(nd):
        o, nk, st = int(w[p]), int(w[p + 1]), int(w[p + 2])
        ks = [dbl(z) for z in w[p + 3:p + 3 + nk]]
        dims.append({"order": o, "nknots": nk, "stride": st, "knots": ks}); p += 3 + nk
    nc = int(w[p]); coef = [struct.unpack("f", struct.pack("I", int(z)))[0] for z in w[p + 1:p + 1 + nc]]; p += 1 + nc
    coords = []
    for _ in range(nd):
        n = int(w[p]); coords.append([dbl(z) for z in w[p + 1:p + 1 + n]]); p += 1 + n
    return {"ndim": nd, "dims": dims, "coef": coef, "coords": coords}

def parse_nd(tok):
    """'ndim ranges.. nent (idx.. val)*' -> (ranges, {idx: [bits,...]})"""
    nd = int(tok[0]); ranges = [int(z) for z in tok[1:1 + nd]]; n = int(tok[1 + nd]); p = 2 + nd
    ent = {}
    for _ in range(n):
        idx = tuple(int(z) for z in tok[p:p + nd]); ent.setdefault(idx, []).append(int(tok[p + nd])); p += nd + 1
    return ranges, ent

def parse_listed(tok, nd):
    n = int(tok[0]); return {tuple(int(z) for z in tok[1 + i * nd:1 + (i + 1) * nd]) for i in range(n)}

def all_idx(ranges):
    out = [()]
    for r in ranges: out = [i + (j,) for i in out for j in range(r)]
    return out

def run(ctx):
    ctx.audit()
    ncases = 150 if ctx.tier == "quick" else 6000
    modes = ["shipped", "san"]
    evals = 0; nontriv = set(); dist = {}
    conc = {}
    worst_d = Fraction(0); worst_f = Fraction(0); worst_K = [None]; worst_rel = [Fraction(0)]; kmin = [None]; kmax = [0]
    counts = {"grid_points": 0, "inside_points_compared_pointwise": 0, "convention_differs_points": 0, "unlisted_points": 0,
              "cells_checked_against_proved_envelope": 0, "B_lines": 0, "S_lines": 0, "T_lines": 0, "G_lines": 0, "pointwise_rejected_outside": 0, "idx_safe_cases": 0}
    for mode in modes:
        exe = ctx.compile("c17_" + mode, ["c17_harness.cpp"], mode=mode, defines=["PHOTOSPLINE_INCLUDES_SPGLAM"],
                          repo_c=psvlib.FITTER_C, libs=psvlib.FITTER_LIBS)
        if not exe:
            ctx.tie_ok = False; ctx.broken.append({"kind": "harness build failed", "mode": mode}); continue
        base = os.path.join(ctx.scratch, "c17" + mode)
        cases, impl, stats, model = base + ".in", base + ".impl", base + ".stats", base + ".model"
        n = ncases if mode == "shipped" else max(20, ncases // 3)
        rc, out, err = ctx.run([exe, str(n), cases, impl, stats, ctx.tier], timeout=1500, env={"OMP_NUM_THREADS": "1"})
        if rc != 0:
            ctx.tie_ok = False
            last = ""
            try: last = open(cases).read().splitlines()[-1][:3000]
            except Exception: pass
            ctx.violation({"harness_rc": rc, "mode": mode, "stderr": err[-3000:], "last_case_line": last,
                           "replay_cmd": "VERIF_SEED=%d python3 bin/check.py C17 --tier %s" % (ctx.seed, ctx.tier)},
                          "grideval harness (%s build) %s rc=%d: %s" % (mode, "timed out" if rc == 124 else "aborted", rc, err[-400:]))
            continue
        if not ctx.driver_ok() or not ctx.run_driver("C17", cases, model):
            ctx.tie_ok = False; ctx.broken.append({"kind": "driver failed"}); continue
        if mode == "shipped": dist = json.load(open(stats))
        # concurrent phase: several grideval calls in flight at the same time on shared const tables vs the single-threaded results
        try: cj = json.load(open(stats + ".conc"))
        except Exception as e: cj = {"status": "unreadable", "error": str(e)}
        conc[mode] = {k: cj.get(k) for k in ("status", "threads", "calls", "tables", "calls_done", "calls_differing", "signal", "exit_code")}
        if cj.get("status") == "completed":
            if cj.get("calls_differing", 0) > 0:
                ctx.report("grideval:concurrent-differs", {"mode": mode, "threads": cj["threads"], "calls": cj["calls_done"], "calls_differing": cj["calls_differing"],
                                                           "mismatches": cj["mismatches"], "tables_and_grids_case_lines": cj.get("case_lines", []),
                                                           "replay_cmd": "VERIF_SEED=%d python3 bin/check.py C17 --tier %s" % (ctx.seed, ctx.tier)},
                           "%d of %d grideval calls made by %d threads at the same time on shared const tables returned a result different from the single-threaded one (first: table %s, %s)"
                           % (cj["calls_differing"], cj["calls_done"], cj["threads"], cj["mismatches"][0]["table"] if cj["mismatches"] else "?", cj["mismatches"][0]["entry"] if cj["mismatches"] else "?"))
        elif cj.get("status") in ("crash", "hang"):
            ctx.report("grideval:concurrent-" + cj["status"], {"mode": mode, "threads": cj.get("threads"), "signal": cj.get("signal"), "exit_code": cj.get("exit_code"),
                                                              "tables_and_grids_case_lines": cj.get("case_lines", []), "stderr": err[-2000:],
                                                              "replay_cmd": "VERIF_SEED=%d python3 bin/check.py C17 --tier %s" % (ctx.seed, ctx.tier)},
                       "the process evaluating %s tables on grids from %s threads at the same time %s (signal %s, exit code %s); every one of these calls succeeds on a single thread"
                       % (cj.get("tables"), cj.get("threads"), "hung" if cj["status"] == "hang" else "crashed", cj.get("signal"), cj.get("exit_code")))
        elif cj.get("status") != "no-cases":
            ctx.tie_ok = False; ctx.broken.append({"kind": "concurrent phase of the harness left no readable result", "mode": mode, "detail": cj})
        with open(cases) as fc, open(impl) as fi, open(model) as fm:
            for ln, (c, i, m) in enumerate(zip(fc, fi, fm), 1):
                c = c.strip(); i = i.strip(); m = m.strip(); kind = c[:1]
                evals += 1
                def broke(what, **kw):
                    ctx.tie_ok = False
                    if len(ctx.broken) < 6: ctx.broken.append(dict(kind=what, mode=mode, line=ln, case=c[:1500], impl=i[:600], model=m[:600], **kw))
                if m in ("bad-input", ""):
                    broke("driver could not parse the case"); continue
                if kind == "B":
                    counts["B_lines"] += 1
                    # the matrix comes back through CHOLMOD's sparse form, which does not store zeros: -0.0 reads as +0.0
                    m = " ".join("0" if z == "9223372036854775808" else z for z in m.split())
                    i = " ".join("0" if z == "9223372036854775808" else z for z in i.split())
                    if i != m:
                        w = c.split(); order = int(w[1]); nk = int(w[2]); ks = [dbl(z) for z in w[3:3 + nk]]
                        rep = any(a == b for a, b in zip(ks, ks[1:]))
                        nan_impl = any(dbl(z) != dbl(z) for z in i.split()[2:]); nan_model = any(dbl(z) != dbl(z) for z in m.split()[2:])
                        xs = [dbl(z) for z in w[4 + nk:]]
                        if rep and nan_impl and not nan_model and not any(x != x for x in xs):
                            ctx.report("bsplinebasis:repeated-knot-nan", {"order": order, "knots": ks, "x": xs, "impl_bits": i, "model_bits": m, "case_line": c},
                                       "bsplinebasis() returns NaN for a knot vector with a repeated knot (0/0 in the static bspline of splineutil.c); grideval and fits on such knots are NaN everywhere")
                        broke("bsplinebasis bits differ from PsV.bsplineBasis at F64")
                    else: nontriv.add(c)
                    continue
                if kind in ("S", "T"):
                    counts[kind + "_lines"] += 1
                    if i == "fail" or m == "fail":
                        if i != m: broke("slicemultiply dimension check differs")
                        continue
                    mp = [z.strip().split() for z in m.split("|")]
                    if len(mp) < 4 or mp[3] != ["safe=1"]:
                        broke("generated slicemultiply case violates PsV.sliceIdxSafe (>= 2^31 columns): outside the hypothesis of slicemultiply_int_arith_exact")
                    else: counts["idx_safe_cases"] += 1
                    ranges, ent = parse_nd(i.split())
                    mr = [int(z) for z in mp[0][1:]]
                    if ranges != mr: broke("slicemultiply ranges differ"); continue
                    if set(ent) != parse_listed(mp[1], len(ranges)): broke("slicemultiply listed index set differs")
                    vals = [frac(z) for z in mp[2]]
                    ok = True
                    # S: dense comparison over the whole result range; T (large ranges): at every index either side lists (unlisted = 0 on both)
                    where = all_idx(ranges) if kind == "S" else sorted(parse_listed(mp[1], len(ranges)))
                    if len(where) != len(vals): broke("line shape"); continue
                    for idx, v in zip(where, vals):
                        iv = sum((Fraction(dbl(b)) for b in ent.get(idx, [])), Fraction(0))
                        if iv != v: ok = False
                    if not ok: broke("slicemultiply values differ from PsV.sliceMultiply (exact integers)")
                    else: nontriv.add(c)
                    continue
                if kind != "G":
                    broke("unknown line"); continue
                counts["G_lines"] += 1
                g = parse_G(c.split())
                nd = g["ndim"]; lens = [len(x) for x in g["coords"]]
                ip = [z.strip() for z in i.split("|")]
                rep = {"table": {"dims": g["dims"], "coef_nonzero": sum(1 for z in g["coef"] if z != 0), "ncoef": len(g["coef"])}, "coords": g["coords"],
                       "case_line": c, "impl": i[:2000], "mode": mode, "line": ln}
                repeated = any(a == b for d in g["dims"] for a, b in zip(d["knots"], d["knots"][1:]))
                if ip[0] == "throw":
                    if all(z == 0 for z in g["coef"]):
                        ctx.report("grideval:all-zero-table-throws", rep, "grideval throws (\"Tried to allocate an ndsparse with 0 entries\") for a table whose coefficients are all zero instead of returning the all-zero result")
                    else:
                        ctx.violation(rep, "grideval threw on a well-formed call")
                    if m != "none": broke("grideval threw, model returned a result")
                    continue
                if "cwrap same" not in ip[1]:
                    ctx.violation(rep, "C wrapper splinetable_grideval returned a different result from splinetable::grideval")
                if m == "none": broke("model returned none, grideval a result"); continue
                ranges, ent = parse_nd(ip[0].split())
                mp = [z.strip().split() for z in m.split("|")]
                if len(mp) < 4 or mp[3] != ["safe=1"]:
                    broke("generated grid case violates PsV.gridIdxSafe (a flattened section with >= 2^31 columns): outside the hypothesis of grideval_int_arith_exact")
                else: counts["idx_safe_cases"] += 1
                if ranges != lens:
                    ctx.violation(rep, "index ranges of the grideval result %r are not the grid lengths %r" % (ranges, lens)); continue
                if [int(z) for z in mp[0][1:]] != ranges: broke("model ranges differ")
                if any(len(v) > 1 for v in ent.values()):
                    ctx.violation(rep, "grideval lists an index tuple twice")
                for idx in ent:
                    if len(idx) != nd or any(a >= b for a, b in zip(idx, ranges)):
                        ctx.violation(rep, "grideval lists index %r outside the ranges %r" % (idx, ranges))
                pw = ip[2].split()[1:]
                pts = mp[2]
                K_f = 4 * sum(3 * d["order"] + 2 for d in g["dims"]) + 2 * 1
                nterm = 1
                for d in g["dims"]: nterm *= d["order"] + 1
                K_f += 2 * nterm + 8
                # proved envelope (C17_grideval_rounding_envelope_tie_partial): K = gridRoundCount dims + ndim + N(cell), all three from the driver / the case
                K0 = int(mp[4][0].split("=")[1]) if len(mp) > 4 and mp[4] and mp[4][0].startswith("K0=") else None
                if K0 is None or K0 != sum(5 * d["order"] + 1 for d in g["dims"]):
                    broke("driver did not report PsV.gridRoundCount = Sum_d(5*order_d+1)"); continue
                idxs = all_idx(ranges)
                if len(pts) != 6 * len(idxs) or len(pw) != len(idxs): broke("line shape"); continue
                listed_model = parse_listed(mp[1], nd)
                nan_seen = False
                for q, idx in enumerate(idxs):
                    counts["grid_points"] += 1
                    get, spec, spt, mag, maj = (frac(z) for z in pts[6 * q:6 * q + 5]); N = int(pts[6 * q + 5])
                    K = K0 + nd + N
                    if maj != mag: broke("majorant cell of PsV.gridEval on |coef| != Sum|coef|Prod|B| of the specification (instance of grideval_eq_spec + C17_basis_rounding: basis values >= 0)", point=[g["coords"][d][idx[d]] for d in range(nd)])
                    x = [g["coords"][d][idx[d]] for d in range(nd)]
                    if get != spec: broke("PsV.gridEval.get != PsV.gridSpec at Rat (instance of grideval_eq_spec)", point=x)
                    bitsl = ent.get(idx)
                    if bitsl is None:
                        counts["unlisted_points"] += 1
                        if spec != 0: ctx.violation(dict(rep, grid_index=idx, x=x, spec=str(spec)), "grid point %r is not listed by grideval but its exact value is %s" % (idx, float(spec)))
                        iv = Fraction(0)
                    else:
                        iv = fbits(bitsl[0])
                        if iv is None:
                            nan_seen = True
                            if repeated:
                                ctx.report("grideval:repeated-knot-nan", dict(rep, grid_index=idx, x=x, spec=str(spec)),
                                           "grideval returns NaN at every grid point when a dimension has a repeated knot (0/0 in the static bspline of splineutil.c); exact value %s" % float(spec))
                            else:
                                ctx.violation(dict(rep, grid_index=idx, x=x), "grideval returned a non-finite value at %r" % (x,))
                            continue
                    tol = gfac53(K) * maj
                    if maj > 0: counts["cells_checked_against_proved_envelope"] += 1
                    if abs(iv - spec) > tol:
                        ctx.violation(dict(rep, grid_index=idx, x=x, spec=str(spec), impl=float(iv), K=K, N=N, majorant=str(maj)),
                                      "grideval value %r at %r is outside the proved rounding envelope: differs from the exact tensor-product sum %r by %.3g*2^-53*majorant, more than gfac(u/(1-u), K=%d)*majorant, majorant = Sum|coef|Prod B = %r (K = Sum_d(5*order_d+1) + ndim + N, N = %d non-zero terms)"
                                      % (float(iv), x, float(spec), float(abs(iv - spec) / (U53 * maj)) if maj > 0 else float("inf"), K, float(maj), N))
                    elif maj > 0:
                        r = abs(iv - spec) / (U53 * maj)
                        if r > worst_d: worst_d = r; worst_K[0] = K
                        worst_rel[0] = max(worst_rel[0], r / K)
                        kmin[0] = K if kmin[0] is None else min(kmin[0], K); kmax[0] = max(kmax[0], K)
                    inside = all(d["knots"][0] < xv < d["knots"][-1] for d, xv in zip(g["dims"], x))
                    if not inside:
                        if pw[q] == "x": counts["pointwise_rejected_outside"] += 1
                        continue
                    if spec != spt:
                        # grideval_eq_pointwise: the two exact specifications agree wherever every coordinate satisfies PsV.AgreeAt
                        # (x < knots[naxes], or x occurs at most `order` times among the knots); they may differ only elsewhere
                        agree = all(xv < d["knots"][d["nknots"] - d["order"] - 1] or d["knots"].count(xv) <= d["order"] for d, xv in zip(g["dims"], x))
                        counts["convention_differs_points"] += 1
                        if agree:
                            broke("PsV.gridSpec != PsV.specEval at a point satisfying PsV.AgreeAt in every dimension (instance of grideval_eq_pointwise)", point=x)
                        continue
                    if pw[q] == "x":
                        ctx.violation(dict(rep, grid_index=idx, x=x), "pointwise lookup rejected a point strictly inside the knot range"); continue
                    pv = fbits(pw[q])
                    if pv is None:
                        ctx.violation(dict(rep, grid_index=idx, x=x), "pointwise evaluation is not finite at %r (grid value %r)" % (x, float(iv))); continue
                    counts["inside_points_compared_pointwise"] += 1
                    tolp = gfac53(K) * maj + K_f * U24 * mag
                    if abs(iv - pv) > tolp:
                        ctx.violation(dict(rep, grid_index=idx, x=x, grid=float(iv), pointwise=float(pv), exact=str(spec)),
                                      "grideval %r and pointwise evaluation %r differ at %r (strictly inside the knot range) by more than (gfac(K=%d)+%d*2^-24)*%r" % (float(iv), float(pv), x, K, K_f, float(mag)))
                    elif mag > 0: worst_f = max(worst_f, abs(pv - spec) / (U24 * mag))
                if not nan_seen and set(ent) != listed_model: broke("set of listed grid indices differs from the model's")
                if ent: nontriv.add(c)
                if len(ctx.coverage["samples"]) < 5 and ent:
                    k0 = sorted(ent)[0]
                    ctx.coverage["samples"].append({"orders": [d["order"] for d in g["dims"]], "grid": lens, "nonzero_coef": rep["table"]["coef_nonzero"], "first_listed": [list(k0), dbl(ent[k0][0])]})
    ctx.coverage["evaluations"] = evals
    ctx.coverage["distinct_nontrivial"] = len(nontriv)
    ctx.coverage["rule"] = ("cases drawn from VERIF_SEED by harness/c17_harness.cpp; distinct = distinct case lines; non-trivial = a G case whose result lists at least one grid point, "
                            "an S case where slicemultiply succeeded and agreed, a B case that agreed bit for bit")
    ctx.coverage["input_distribution"] = dist
    ctx.coverage["counts"] = counts
    ctx.coverage["concurrent_phase"] = conc
    ctx.coverage["worst_grid_vs_exact_in_units_of_2^-53*mag"] = float(worst_d)
    ctx.coverage["proved_envelope"] = {"theorem": "C17_grideval_rounding_envelope_tie_partial", "K": "Sum_d(5*order_d+1) + ndim + N(cell)",
                                       "K_at_worst_cell": worst_K[0], "K_range_over_checked_cells": [kmin[0], kmax[0]],
                                       "worst_ratio_|impl-exact|/(2^-53*majorant)": float(worst_d), "worst_ratio_over_K": float(worst_rel[0])}
    ctx.coverage["worst_pointwise_vs_exact_in_units_of_2^-24*mag"] = float(worst_f)
    ctx.assumptions += ["rounding envelope of grideval: proved (C17_grideval_rounding_envelope_partial / _tie_partial) for the model run with any roundings of relative error eps: |rounded - exact| <= gfac(eps, K)*majorant at every cell, K = Sum_d(5*order_d+1) + N (+ ndim for the check), majorant = the cell of the same model on |coef| (= Sum|coef|Prod B, printed by the driver, as are N and Sum_d(5*order_d+1)); checked on every compared cell at eps = u/(1-u), u = 2^-53; assumed: no underflow/overflow (standard model), and that CHOLMOD adds the products of a cell up by recursive summation in some order, slice by slice (the model adds them when the cell is read; the + ndim covers the difference, argument at the theorem); pointwise float evaluation adds K_f*2^-24*Sum|coef|Prod|B| with the measured-envelope constant K_f = 4*Sum_d(3*order_d+2) + 2*Prod_d(order_d+1) + 10 (C01 proves its own envelope)",
                        "concurrency: the model of grideval is a pure function of table and grid, so a result cannot depend on other calls in flight; checked by the harness's concurrent phase (6 threads, C++ member and C entry point, shared const tables, every result compared bit for bit with the single-threaded one, forked child with an alarm) - a test of the schedules that occurred, not a proof of thread safety",
                        "CHOLMOD (ssmult, triplet/sparse conversion) is modelled by its mathematical meaning: equal (row,col) contributions are added, exact zeros of the basis matrix are not stored",
                        "int / unsigned / long index arithmetic of slicemultiply: proved exact (no wrap-around, no zero divisor) whenever the flattened section has < 2^31 columns (slicemultiply_int_arith_exact, grideval_int_arith_exact about the C-typed model PsV.sliceMultiplyC); the decidable hypothesis is evaluated on every generated case; still assumed: the entry counter `int i < a->rows` (needs fewer than 2^31 stored entries) and CHOLMOD's internal index arithmetic",
                        "ownership of the C wrapper's result is released through the C++ type in the harness (ndsparse_destroy deletes through the C base type: C18's finding)"]

def replay(ctx, path):
    r = json.load(open(path))
    print(json.dumps(r, indent=1)[:3000])
    run(ctx)
