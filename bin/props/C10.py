"""C10 — a monotonic fit is non-decreasing along the requested dimension for any data.

Proof: PsV/Props/C10.lean (float_cumsum_monotone, cumsum_monotone, tspline_eq_cumsum, Bind_nonneg, deriv_formula,
monotone_coeffs_nonneg_deriv, C10_monotone, C10_monotone_of_cumsum, inactive_constraint) together with
block3_nonneg_invariant of PsV/Props/C11.lean (the non-negative solve returns a non-negative vector on every exit).

Tie: harness/mono_harness.cpp performs real monotonic fits (splinetable<>::fit with monodim) on small generated
problems (noisy / decreasing / oscillating / noise / steps / inactive data, 1..3 dims, every monodim, orders 1..4,
sparse data, OMP_NUM_THREADS=1).  `psvdriver C10` decides on the exact rational values of the returned float
coefficients
  * `monoAlongB` (the hypothesis of C10_monotone_B): coefficients non-decreasing along monodim — a single decreasing
    pair is a VIOLATION with the data set as replay;
  * the exact derivative along monodim (specEval with the derivative bit) at every grid point, which the theorem says
    is >= 0, and the magnitude sum for the rounding envelope; the implementation's ndsplineeval derivative must be
    >= -ENV_K * 2^-53 * magnitude.
Inactive case (smooth positive increasing data whose unconstrained fit is non-negative and non-decreasing with a
margin): the monotonic fit must equal the unconstrained fit within single-precision tolerance.

Data classes.  First stream (values of order 0.1..100): noisy increasing / decreasing / oscillating / noise / steps /
inactive.  Second stream (small-magnitude family, same number of fits): tables of magnitude S = 4e-14..4 whose step from
one coefficient to the next along monodim is delta = 1e-14..1e-6 (log-uniform: below, around and above any absolute
tolerance of the solver) with S/delta = 2^2..2^22, so that a step of delta is visible in the float32 coefficients —
gentle linear falls, mixtures (rise or steep fall followed by a gentle fall; gentle fall followed by a rise), plateaus with
a ripple/noise of size delta, negative and zero-crossing gentle drifts, the first-stream shapes scaled by 2^-10..2^-45,
and the inactive shape scaled by 2^-7..2^-40; half of them are small only in a part of the domain and rise to a large
amplitude elsewhere (late along monodim or in a part of another dimension; small part 1e-1..1e-10 of the large one), half
have 2..6 abscissae per coefficient, half have weights up to 2^12, half of the 1-d ones have 10..56 coefficients.
The oracle is exact on the float coefficients (no tolerance): a step of -1e-9 (or -1e-40) is a decreasing pair; any
negative coefficient is reported as well (the hypothesis of float_cumsum_monotone).  For the small-magnitude inactive shape
the monotonic fit of 2^k*data must be 2^k times the monotonic fit of data (the constrained minimiser is homogeneous).

Third stream (weight-scale family, same number of fits; shapes 12..17 = the first-stream shapes, the inactive one three times
as often): the weights — 1/variance in practice — have an overall scale 4^j between 2^-40 and 2^40 (1e-12 .. 1e12), uniform over
the fit or mixed within it (scattered over the rows with a half-spread of 2^4, 2^10 or 2^20; a gradient or two blocks along one
dimension with a half-spread of 2^4 or 2^10); the smoothing is 1e-3..10 times the same scale, or exactly zero (then every knot
interval of the supported region holds order+1..order+3 abscissae, the grid is full and no weight is zero, so the data determine
the fit); a quarter of the tables has values of 2^10..2^60.  Oracles besides the ones above:
  * `W`: the monotonic fit with (w, lambda) must equal the monotonic fit with (4^-j w, 4^-j lambda) — the objective is the same up
    to a factor, and scaling by a power of four is exact in every floating-point operation of the fit (including the square roots
    of the factorisation), so on a scale-free implementation the two are bit-identical whatever the conditioning (measured: 0
    difference in 19 200 comparisons on the tree with fixes/C10-3.diff); tolerance INACTIVE_TOL;
  * `G`: large-valued tables: fit(z) = 2^k fit(2^-k z);
  * `U`: inactive comparison with the unconstrained fit (which is independent of the weight scale: cholesky_solve has no absolute
    threshold) — in one dimension, and in >= 2 dimensions for zero smoothing (with smoothing the known finding inactive:differs:nd
    hides everything); for weights mixed within the fit with tolerance 256*INACTIVE_TOL up to a half-spread of 2^4 (structured) /
    2^10 (scattered), not at all beyond: the solver's stopping rule is absolute in the gradient normalised to its largest entry.
Signatures of this family carry the suffix :large-weights (heaviest weights >= 2^16) or :small-weights (lightest <= 2^-20).

Fourth stream (knot-scale family, harness/c10_knotscale.h, sub-command `knotscale` of the same binary; theorem
C10_knot_scale_equivariant and its parts in Props/C10.lean): 1-d (two thirds) and 2-d problems, penalty order of the monotonic
dimension 1, 2, 3 in turn, spline order penalty order..4, smoothing 0.1..100 (10..1000 for the ripple class), data classes inactive
(smooth increasing) / increasing with a ripple that the smoothing irons out / oscillating / decreasing / noisy increasing.  Every
problem is fitted four times: monotonic and unconstrained at scale 1, monotonic and unconstrained on the rescaled axes (knots and
abscissae of dimension d times h_d, smoothing times h_d^(2 p_d); h of the monotonic dimension from 2^20, 2^30, 2^-20, 1e6 and, by
penalty order, 2^55 / 1e17 (p = 1), 2^40 / 1e9 (p = 2), 2^-30 / 3e-5 (p = 3); another dimension unscaled, same scale or its own).
Oracles:
  * `knotscale:mono-differs`, `knotscale:unconstrained-differs`: the fit on the rescaled axes must return the coefficients of the fit
    at scale 1 (same objective as a function of the coefficients): within KS_POW2_TOL = 2^-22 of the largest coefficient when every h
    is a power of two (every scaled quantity is then exact and the assembled system bit-identical; measured difference 0), within
    KS_TOL = 1e-6 otherwise (measured on the unchanged tree, seeds 1..8 x 1500 problems: 0 as well - the float storage of the
    coefficients hides the 1e-16 perturbation of the knots);
  * `knotscale:inactive:differs:1d`: in one dimension (where the code's objective is the stated one: code_objective_1d) the inactive
    clause on the rescaled problem - unconstrained fit at scale h non-negative and increasing with the margin of the first stream =>
    monotonic fit at scale h equal to it within INACTIVE_TOL (measured worst 2.6e-7);
  * `knotscale:mono:decreasing-pair` / `knotscale:mono:negative-coefficient`: the first sentence of the property at large and small
    axis scales, exactly on the float coefficients.
  * `knotscale:penalty-matrix:mono` / `:plain`: for every dimension of the first 150 (quick) problems the real calc_penalty is called
    in-process (ndim = 1, mono = 1 and mono = 0) on the knots at scale 1 and on the rescaled knots; `psvdriver C10` (K line) computes
    the same four matrices exactly from the model (`dtd (finiteDiffMono ..)`, `dtd (finiteDiff ..)` on rationals) and checks the
    instance of finiteDiff_knot_scale (entries on h*t times h^p = entries on t) on these executed definitions; the code's doubles must
    agree to PEN_TOL = 1e-12 of the largest entry (measured worst 8e-16).
These signatures are distinct from the known finding inactive:differs:nd (which compares monotonic with unconstrained in >= 2
dimensions); the 2-d problems of this stream compare monotonic with monotonic only.
"""
import json, os, struct
from fractions import Fraction
import psvlib

ENV_K = 4096            # rounding envelope of a double-precision evaluation: ENV_K * 2^-53 * sum |c| prod |basis|
INACTIVE_TOL = 2e-5     # relative to max |coefficient| (float storage 6e-8, two different normal-equation bases)
KS_POW2_TOL = 2.0 ** -22   # knot-scale stream, every scale a power of two: the assembled systems are bit-identical (two float ulps of the largest coefficient allowed; measured 0)
KS_TOL = 1e-6           # knot-scale stream, other scales (h*knot is rounded): rounding level (measured 0 in 12 000 problems on the unchanged tree)
PEN_TOL = 1e-12         # code's DtD of one dimension (calc_penalty, both branches) vs the exact matrix of the model, relative to its largest entry (measured worst 8e-16)
KS_CLASSES = ["inactive (smooth increasing)", "increasing with a ripple, strong smoothing (inactive once the ripple is ironed out)",
              "oscillating (active)", "decreasing (active)", "noisy increasing (partly active)"]


SHAPES = ["noisy increasing", "decreasing", "oscillating", "noise", "steps with outliers", "inactive (smooth increasing)",
          "small magnitude: gentle linear fall (step per coefficient 1e-14..1e-6, visible in float32)",
          "small magnitude: mixture (rise or steep fall + gentle fall, or gentle fall + rise to a large amplitude)",
          "small magnitude: plateau with a ripple/noise of the size of the gentle step",
          "shapes 0..4 scaled by 2^-10..2^-45", "inactive (smooth increasing) scaled by 2^-7..2^-40",
          "small magnitude: gentle drift of a table that is negative or crosses zero"] + [
          "weight-scale family (weights 2^-40..2^40, uniform or mixed within the fit; smoothing scaled with the weights or zero): " + x
          for x in ["noisy increasing", "decreasing", "oscillating", "noise", "steps with outliers", "inactive (smooth increasing)"]]
WPAT = ["uniform scale", "random per row", "gradient along one dimension", "two blocks along one dimension"]


def dbl(u): return struct.unpack("d", struct.pack("Q", int(u)))[0]
def flt(u): return struct.unpack("f", struct.pack("I", int(u)))[0]
def frac(s):
    a, b = s.split("/"); return Fraction(int(a), int(b))


def build(ctx, mode):
    return ctx.compile("monoh_" + mode, ["mono_harness.cpp"], mode=mode, defines=["PHOTOSPLINE_INCLUDES_SPGLAM"],
                       repo_c=psvlib.FITTER_C, libs=psvlib.FITTER_LIBS)


def describe(pline):
    w = pline.split()
    d = {"problem_line": pline if len(pline) < 60000 else pline[:60000] + " ...", "ndim": int(w[1]), "monodim": int(w[2]),
         "data": SHAPES[int(w[3])] if int(w[3]) < len(SHAPES) else (
             "knot-scale family: " + KS_CLASSES[int(w[3]) - 20] if 20 <= int(w[3]) < 20 + len(KS_CLASSES) else w[3]),
         "replay_cmd": "python3 bin/check.py C10 --replay <this file>"}
    if len(w) > 6 and w[-6] == "K":
        h = header(pline); wk, wpat, wm, wgd, wdir = [int(x) for x in w[-5:]]
        d["weights"] = {"overall_scale": "2^%d" % wk, "pattern": WPAT[wpat] if wpat < len(WPAT) else wpat, "half_spread": "2^%d" % wm,
                        "smallest_nonzero": h["wmin"], "largest": h["wmax"], "smoothing": h["smooth"]}
        if wpat >= 2: d["weights"]["along"] = "dimension %d, %s" % (wgd, "falling" if wdir > 0 else "rising")
    return d


def wclass(pline):
    """(wk, wpat, wm, band) of a weight-scale problem; band: suffix of the signature by the overall scale of the weights"""
    w = pline.split()
    if len(w) < 7 or w[-6] != "K": return None
    wk, wpat, wm = int(w[-5]), int(w[-4]), int(w[-3])
    # heaviest weights about 2^(wk+wm), lightest about 2^(wk-wm)
    return wk, wpat, wm, (":large-weights" if wk + wm >= 16 else (":small-weights" if wk - wm <= -20 else ""))


def header(pline):
    """smoothing per dimension and the range of the weights of a P line"""
    w = pline.split(); nd = int(w[1]); p = 4; smooth = []
    for _ in range(nd):
        smooth.append(dbl(w[p + 2])); nk = int(w[p + 3]); p += 4 + nk; nc = int(w[p]); p += 1 + nc
    rows = int(w[p]); p += 1; ws = []
    for r in range(rows):
        ws.append(dbl(w[p + nd + 1])); p += nd + 2
    nz = [v for v in ws if v > 0]
    return {"smooth": smooth, "wmin": min(nz) if nz else 0.0, "wmax": max(ws) if ws else 0.0}


def run_harness(ctx, exe, args, tag):
    """a scheduling-dependent hang of walk_descents (property C12, lost wake-up) is retried; a repeatable one is a result"""
    for attempt in range(3):
        rc, out, err = ctx.run([exe] + args, timeout=240, env={"OMP_NUM_THREADS": "1", "GOTO_NUM_THREADS": "1"})
        if rc != 124: return rc, out, err, attempt
    return 124, out, err, 3


def band(pline):
    c = wclass(pline)
    return c[3] if c else ""


def report(ctx, acc, signature, replay, what):
    """ctx.report + a per-signature count (and per data class) for the evidence file"""
    acc["reported"][signature] = acc["reported"].get(signature, 0) + 1
    return ctx.report(signature, replay, what)


def evaluate(ctx, cases, impl, acc):
    clines = open(cases).read().splitlines(); ilines = open(impl).read().splitlines()
    if len(clines) != len(ilines):
        ctx.tie_ok = False; ctx.broken.append({"kind": "harness output truncated", "cases": len(clines), "impl": len(ilines)}); return
    drv_in = cases + ".drv"
    with open(drv_in, "w") as f:
        for c in clines:
            if c[:1] in "TMV": f.write(c + "\n")
    drv_out = drv_in + ".out"
    if not ctx.driver_ok() or not ctx.run_driver("C10", drv_in, drv_out):
        ctx.tie_ok = False; ctx.broken.append({"kind": "driver failed"}); return
    olines = iter(open(drv_out).read().splitlines())
    prob = None; mono_ok = True; table = None; values = {}
    for c, i in list(zip(clines, ilines)) + [("P end", "")]:
        k = c[:1]
        if k == "P":
            if prob is not None and values: judge_values(ctx, acc, prob, values, mono_ok)
            values = {}
            if c == "P end": break
            prob = c; acc["fits"] += 1
            if not i.startswith("fit ok"):
                report(ctx, acc, "fit:threw", describe(prob), "monotonic fit threw on a well-posed problem: " + i)
            continue
        if k == "T":
            o = next(olines); table = c
            if o != "table": ctx.tie_ok = False; ctx.broken.append({"kind": "driver rejected the fitted table", "out": o})
            coefs = [flt(u) for u in c.split()[-int(_ncoef(c)):]]
            if any(v != v or v in (float("inf"), float("-inf")) for v in coefs):
                report(ctx, acc, "fit:nonfinite" + band(prob), describe(prob), "monotonic fit returned non-finite coefficients on a well-posed problem")
            elif any(v < 0 for v in coefs):
                # hypothesis of float_cumsum_monotone: the T-spline coefficients come out of the non-negative solve (C11 block3_nonneg_invariant:
                # every exit of nnls_normal_block3 returns x >= 0), so every partial sum, in particular the first slice, is >= 0
                j = min(range(len(coefs)), key=lambda q: coefs[q])
                report(ctx, acc, "mono:negative-coefficient" + band(prob), dict(describe(prob), index=j, value=coefs[j]),
                           "monotonic fit returned a negative coefficient c[%d] = %.9g: the non-negative solve handed a negative T-spline coefficient to the cumulative sum" % (j, coefs[j]))
            continue
        if k == "M":
            o = next(olines); acc["evaluations"] += 1
            mono_ok = o.startswith("mono=1")
            inc_ok = o.endswith("inc=1")
            coefs = [flt(u) for u in table.split()[-int(_ncoef(table)):]]
            s1_, n_, s2_ = strides(table, int(c.split()[1]))
            first_ok = all(coefs[a * s2_ * n_ + kk] >= 0 for a in range(s1_) for kk in range(s2_))
            if all(v == v for v in coefs) and inc_ok != (mono_ok and first_ok):
                # instance of increments_nonneg_iff failed: the driver's incNonnegB and monoAlongB disagree
                ctx.tie_ok = False
                if len(ctx.broken) < 5: ctx.broken.append({"kind": "increments_nonneg_iff instance: incNonnegB != (monoAlongB and first slice >= 0)", "driver": o})
            if inc_ok: acc["inc_ok"] += 1
            if not mono_ok:
                pair = first_decreasing_pair(table, int(c.split()[1])) or "a non-finite coefficient"
                report(ctx, acc, "mono:decreasing-pair" + band(prob), dict(describe(prob), driver=o, pair=pair),
                           "monotonic fit returned coefficients that decrease along monodim=%s: %s" % (c.split()[1], pair))
            else:
                acc["mono_ok"] += 1
                acc["distinct"].add(hash(table))
            continue
        if k == "V" and c.split()[2] == "0":
            # value at a grid point: collected per line (same other coordinates) and judged when the table is complete
            o = next(olines).split(); acc["evaluations"] += 1; acc["value_points"] += 1
            if len(o) < 4: acc["deriv_inexact"] += 1; continue
            w = c.split(); nd = int(prob.split()[1]); m = int(prob.split()[2]); xb = w[3:3 + nd]
            key = tuple(xb[:m] + xb[m + 1:])
            values.setdefault(key, []).append((dbl(xb[m]), frac(o[2]), frac(o[3]), dbl(i), c))
            continue
        if k == "V":
            o = next(olines).split(); acc["evaluations"] += 1; acc["deriv_points"] += 1
            if len(o) < 4: acc["deriv_inexact"] += 1; continue
            spec, mag = frac(o[2]), frac(o[3]); cval = dbl(i)
            if mono_ok and spec < 0:
                # an instance of C10_monotone failed: the theorem or the driver's spec no longer matches
                ctx.tie_ok = False
                if len(ctx.broken) < 5: ctx.broken.append({"kind": "C10_monotone instance: exact derivative negative although monoAlongB holds", "line": c, "spec": o[2]})
            env = ENV_K * float(mag) * 2.0 ** -53
            if cval != cval or cval < -env:
                report(ctx, acc, "deriv:negative" + band(prob), dict(describe(prob), point=c, impl_derivative=cval, exact_derivative=float(spec), envelope=env),
                           "derivative along monodim is %.3e < -envelope %.3e (exact derivative of the returned spline %.3e)" % (cval, env, float(spec)))
            elif cval < 0 and float(mag) > 0:
                acc["worst_neg_ratio"] = max(acc["worst_neg_ratio"], -cval / (float(mag) * 2.0 ** -53))
            if float(mag) > 0:
                acc["worst_err_ratio"] = max(acc["worst_err_ratio"], abs(cval - float(spec)) / (float(mag) * 2.0 ** -53))
            if float(spec) > 0: acc["deriv_positive"] += 1
            continue
        if k == "H":
            # scale equivariance (the constrained minimiser is homogeneous in the data): fit(2^k z) = 2^k fit(z)
            w = c.split(); nc = int(w[1]); kk = int(w[2])
            pairs = [(flt(w[3 + 2 * j]) * 2.0 ** kk, flt(w[4 + 2 * j])) for j in range(nc)]
            acc["evaluations"] += 1; acc["scaled_checked"] += 1
            scale = max(abs(b) for _, b in pairs) or 1.0
            d = max(abs(a - b) for a, b in pairs) / scale
            acc["worst_scaled_rel"] = max(acc["worst_scaled_rel"], d)
            if d > INACTIVE_TOL:
                report(ctx, acc, "scale:differs:small-values", dict(describe(prob), max_rel_diff=d, k=kk),
                           "monotonic fit of a small-valued table (largest value 2^-%d) differs from 2^-%d times the monotonic fit of the same table scaled by 2^%d by %.3e of the largest coefficient%s" % (
                               kk, kk, kk, d, " (it is identically zero)" if all(a == 0 for a, _ in pairs) else ""))
            continue
        if k in "WG":
            # W: weight-scale equivariance (the minimiser depends only on the ratio weights : smoothing): fit(2^k w, 2^k lambda) = fit(w, lambda)
            # G: data-scale equivariance for large-valued tables: fit(z) = 2^k fit(2^-k z)
            w = c.split(); nc = int(w[1]); kk = int(w[2])
            pairs = [(flt(w[3 + 2 * j]), flt(w[4 + 2 * j]) * (2.0 ** kk if k == "G" else 1.0)) for j in range(nc)]
            acc["evaluations"] += 1; key = "wscaled" if k == "W" else "dscaled"
            acc[key + "_checked"] += 1
            if any(a != a or b != b or abs(a) == float("inf") or abs(b) == float("inf") for a, b in pairs):
                d = float("inf")
            else:
                scale = max(abs(b) for _, b in pairs) or 1.0
                d = max(abs(a - b) for a, b in pairs) / scale
                acc["worst_" + key + "_rel"] = max(acc["worst_" + key + "_rel"], d)
                if k == "W": acc["wscaled_by_k"].append((kk, d))
            if d > INACTIVE_TOL:
                if k == "W":
                    report(ctx, acc, "weightscale:differs" + band(prob), dict(describe(prob), max_rel_diff=d, k=kk),
                           "monotonic fit with weights of overall scale 2^%d (smoothing scaled alike) differs from the monotonic fit of the same problem with weights and smoothing times 2^%d by %.3e of the largest coefficient: the fit must depend only on the ratio weights : smoothing" % (kk, -kk, d))
                else:
                    report(ctx, acc, "scale:differs:large-values" + band(prob), dict(describe(prob), max_rel_diff=d, k=kk),
                           "monotonic fit of a large-valued table (largest value 2^%d) differs from 2^%d times the monotonic fit of the table scaled by 2^-%d by %.3e of the largest coefficient" % (kk, kk, kk, d))
            continue
        if k == "U":
            w = c.split(); nc = int(w[1]); pairs = [(flt(w[2 + 2 * j]), flt(w[3 + 2 * j])) for j in range(nc)]
            acc["evaluations"] += 1
            unc = [b for _, b in pairs]; scale = max(abs(v) for v in unc) or 1.0
            pw = prob.split(); m = int(pw[2])
            s1, n, s2 = strides(table, m)
            # precondition of the inactive case, with a margin: unconstrained T-coordinates (first slice and increments) clearly positive
            margin = 1e-3 * scale; inactive = True
            for a in range(s1):
                for kk in range(s2):
                    prev = 0.0
                    for j in range(n):
                        v = unc[a * s2 * n + j * s2 + kk]
                        if v - prev < margin: inactive = False
                        prev = v
            if any(v != v or abs(v) == float("inf") for v in unc): inactive = False       # the unconstrained fit itself failed: no reference
            if not inactive: acc["inactive_precondition_failed"] += 1; continue
            tol = INACTIVE_TOL; wc = wclass(prob)
            if wc and wc[1] >= 1:
                # weights mixed within the fit: the solver stops when every gradient component is above -1e-9 of the largest one, so a region whose
                # weights are rho times the heaviest ones is fitted to about 1e-9/rho only, and the conditioning of both normal matrices grows with
                # the spread: tolerance * 4^4 (5e-3) up to a half-spread of 2^4 (structured patterns) or 2^10 (weights scattered over the rows),
                # no comparison beyond (measured on the repaired tree, 40 seeds: worst 2.6e-5 scattered, 1.8e-4 structured)
                if (wc[1] >= 2 and wc[2] > 4) or wc[2] > 10: acc["inactive_skipped_weight_spread"] += 1; continue
                tol = INACTIVE_TOL * 4.0 ** 4
            acc["inactive_checked"] += 1
            d = max(abs(a - b) for a, b in pairs) / scale
            if d != d: d = float("inf")
            if int(pw[3]) >= 12:
                acc["ws_inactive_checked"] += 1; acc["worst_ws_inactive_rel"] = max(acc["worst_ws_inactive_rel"], d)
            else:
                acc["worst_inactive_rel"] = max(acc["worst_inactive_rel"], d)
            if d > tol:
                if int(pw[3]) >= 12:
                    sig = "inactive:differs:weight-scale:" + ("1d" if int(pw[1]) == 1 else "nd:zero-smoothing") + band(prob)
                else:
                    sig = "inactive:differs:%s" % (("1d:small-values" if int(pw[3]) == 10 else "1d") if int(pw[1]) == 1 else "nd")
                report(ctx, acc, sig, dict(describe(prob), max_rel_diff=d),
                           "constraint inactive (unconstrained fit non-negative and non-decreasing with margin) but the monotonic fit differs by %.3e relative" % d)


# ---------------------------------------------------------------- fourth stream: knot-scale equivariance

def ks_header(pline):
    """per dimension of a P line: order, penalty order, smoothing, number of coefficients"""
    w = pline.split(); nd = int(w[1]); p = 4; dims = []
    for _ in range(nd):
        o, po, sm, nk = int(w[p]), int(w[p + 1]), dbl(w[p + 2]), int(w[p + 3]); p += 4 + nk; nc = int(w[p]); p += 1 + nc
        dims.append({"order": o, "penalty_order": po, "smoothing": sm, "ncoef": nk - o - 1, "nabscissae": nc})
    return dims


def ks_rel(a, b):
    scale = max(abs(v) for v in b) or 1.0
    return max(abs(x - y) for x, y in zip(a, b)) / scale


def ks_penalty(ctx, acc, plines, kfile, cfile):
    """the code's penalty matrix of one dimension (calc_penalty called in-process, mono = 1 and 0, knots at scale 1 and on the rescaled
    axis) against the exact matrix of the model (`psvdriver C10`, K line: dtd (finiteDiffMono ..) / dtd (finiteDiff ..) on rationals)"""
    ks = acc["knotscale"]
    K = open(kfile).read().splitlines(); C = open(cfile).read().splitlines()
    dout = kfile + ".drv"
    if not K: return
    if len(K) != len(C) or not ctx.driver_ok() or not ctx.run_driver("C10", kfile, dout):
        ctx.tie_ok = False; ctx.broken.append({"kind": "penalty-matrix records: driver failed or harness output truncated", "K": len(K), "C": len(C)}); return
    D = open(dout).read().splitlines()
    if len(D) != len(K):
        ctx.tie_ok = False; ctx.broken.append({"kind": "penalty-matrix records: driver output truncated", "K": len(K), "D": len(D)}); return
    owners = [(P, Kl, d) for (P, Kl) in plines for d in range(int(P.split()[1]))]
    names = ["monotonic branch (finitediff*tril), knots at scale 1", "plain branch, knots at scale 1",
             "monotonic branch (finitediff*tril), rescaled knots", "plain branch, rescaled knots"]
    for q, (k, c, d) in enumerate(zip(K, C, D)):
        cw = c.split(); dw = d.split(); kw = k.split()
        if dw[0] != "pen" or int(dw[1]) != int(cw[1]):
            ctx.tie_ok = False
            if len(ctx.broken) < 5: ctx.broken.append({"kind": "penalty-matrix record rejected by the driver", "K": k[:300], "driver": d[:100]})
            continue
        n = int(cw[1]); status = int(cw[2]); order, po, nk = int(kw[1]), int(kw[2]), int(kw[3]); h = dbl(kw[4 + nk])
        if dw[2] != "thm=1":
            # instance of finiteDiff_knot_scale on the executed definitions failed: theorem and model have come apart
            ctx.tie_ok = False
            if len(ctx.broken) < 5: ctx.broken.append({"kind": "finiteDiff_knot_scale instance failed in the driver", "K": k[:300]})
        ks["penalty_exact_scaling" if dw[3] == "exact=1" else "penalty_rounded_scaling"] += 1
        cv = [dbl(u) for u in cw[3:]]; dv = [dbl(u) for u in dw[4:]]
        P, Kl, dim = owners[q] if q < len(owners) else (None, None, None)
        for f in range(4):
            a = cv[f * n * n:(f + 1) * n * n]; b = dv[f * n * n:(f + 1) * n * n]
            acc["evaluations"] += 1; ks["penalty_matrices"] += 1
            scale = max(abs(x) for x in b) or 1.0
            if (status >> f) & 1 or any(x != x for x in a): e = float("inf")
            else: e = max(abs(x - y) for x, y in zip(a, b)) / scale
            if e != float("inf"): ks["worst_penalty_rel"] = max(ks["worst_penalty_rel"], e)
            if e > PEN_TOL:
                ctx.tie_ok = False
                nz_exact = sum(1 for x in b if x != 0); nz_code = sum(1 for x in a if x != 0)
                report(ctx, acc, "knotscale:penalty-matrix:" + ("mono" if f % 2 == 0 else "plain"),
                       {"knotscale": True, "problem_line": P, "scale_line": Kl, "dimension": dim, "order": order, "penalty_order": po, "ncoef": n,
                        "axis_scale_h": h, "matrix": names[f], "max_rel_diff": e, "largest_exact_entry": scale, "nonzeros_exact": nz_exact, "nonzeros_code": nz_code,
                        "knots": [dbl(u) for u in (kw[4:4 + nk] if f < 2 else kw[6 + nk:6 + 2 * nk])], "code_DtD_row_major": a, "exact_DtD_row_major": b,
                        "replay_cmd": "python3 bin/check.py C10 --replay <this file>"},
                       "calc_penalty(%s), penalty order %d, spline order %d, %d coefficients, knots %s: the matrix DtD differs from the exact p-th divided-difference penalty by %.3e of its largest entry %.3e (tolerance %.0e; non-zero entries: exact %d, code %d): the smoothing term of this dimension is not the stated one" % (
                           names[f], po, order, n, "at scale 1" if f < 2 else "times %g" % h, e, scale, PEN_TOL, nz_exact, nz_code))


def ks_evaluate(ctx, acc, path, pen=None):
    """judge the records (P, KS, R) of `mono_harness knotscale|ksreplay`"""
    lines = open(path).read().splitlines()
    ks = acc["knotscale"]
    if len(lines) % 3 != 0:
        ctx.tie_ok = False; ctx.broken.append({"kind": "knot-scale harness output truncated", "lines": len(lines)})
    for q in range(0, len(lines) - 2, 3):
        P, K, R = lines[q:q + 3]
        if not (P.startswith("P ") and K.startswith("KS ") and R.startswith("R ")):
            ctx.tie_ok = False; ctx.broken.append({"kind": "knot-scale harness output malformed", "at": q}); return
        pw = P.split(); nd = int(pw[1]); m = int(pw[2]); cls = int(pw[3]) - 20
        kw = K.split(); hs = [dbl(kw[2 + 2 * d]) for d in range(nd)]; es = [int(kw[3 + 2 * d]) for d in range(nd)]
        rw = R.split(); nc = int(rw[1]); ok = rw[2]; v = [flt(u) for u in rw[3:]]
        m1, u1, mh, uh = [v[k::4] for k in range(4)]
        dims = ks_header(P); pm = dims[m]["penalty_order"]
        pow2 = all(e != 9999 for e in es)
        ks["problems"] += 1; acc["fits"] += 4
        hdesc = ["2^%d" % e if e != 9999 else "%g" % h for h, e in zip(hs, es)]
        base = {"knotscale": True, "problem_line": P if len(P) < 60000 else P[:60000] + " ...", "scale_line": K, "ndim": nd, "monodim": m,
                "data": "knot-scale family: " + (KS_CLASSES[cls] if 0 <= cls < len(KS_CLASSES) else str(cls)),
                "axis_scale_h": hdesc, "penalty_orders": [d["penalty_order"] for d in dims], "orders": [d["order"] for d in dims],
                "smoothing_at_scale_1": [d["smoothing"] for d in dims],
                "smoothing_at_scale_h": [d["smoothing"] * h ** (2 * d["penalty_order"]) for d, h in zip(dims, hs)],
                "monotonic_fit_scale_1": m1, "unconstrained_fit_scale_1": u1, "monotonic_fit_scale_h": mh, "unconstrained_fit_scale_h": uh,
                "replay_cmd": "python3 bin/check.py C10 --replay <this file>"}
        if ok != "1111":
            report(ctx, acc, "knotscale:fit:threw", dict(base, fits_ok=ok),
                   "a fit of a well-posed problem threw (flags monotonic/unconstrained at scale 1, monotonic/unconstrained at axis scale %s: %s)" % (hdesc, ok))
            continue
        bad = [nm for nm, vec in (("monotonic fit at scale 1", m1), ("unconstrained fit at scale 1", u1), ("monotonic fit at scale h", mh), ("unconstrained fit at scale h", uh))
               if any(x != x or abs(x) == float("inf") for x in vec)]
        if bad:
            report(ctx, acc, "knotscale:nonfinite", dict(base, nonfinite=bad), "non-finite coefficients on a well-posed problem, axis scale %s: %s" % (hdesc, ", ".join(bad)))
            continue
        # first sentence of the property at this axis scale, exactly on the floats
        nax = [d["ncoef"] for d in dims]; s2 = 1
        for n_ in nax[m + 1:]: s2 *= n_
        n = nax[m]
        acc["evaluations"] += 1
        dec = next(((j, mh[j], mh[j + s2]) for j in range(nc - s2) if (j // s2) % n != n - 1 and not (mh[j] <= mh[j + s2])), None)
        if dec:
            report(ctx, acc, "knotscale:mono:decreasing-pair", dict(base, pair={"flat_index": dec[0], "c[j]": dec[1], "c[j+1]": dec[2]}),
                   "monotonic fit on axes scaled by %s returned coefficients that decrease along monodim=%d: %.9g -> %.9g" % (hdesc, m, dec[1], dec[2]))
        elif min(mh) < 0:
            report(ctx, acc, "knotscale:mono:negative-coefficient", dict(base, value=min(mh)),
                   "monotonic fit on axes scaled by %s returned a negative coefficient %.9g" % (hdesc, min(mh)))
        else:
            ks["mono_ok"] += 1; acc["distinct"].add(hash(R))
        # equivariance: the rescaled problem has the same objective (C10_knot_scale_equivariant), hence the same fits
        tol = KS_POW2_TOL if pow2 else KS_TOL; key = "pow2" if pow2 else "general"
        dm = ks_rel(mh, m1); du = ks_rel(uh, u1)
        acc["evaluations"] += 2; ks["compared_" + key] += 1
        ks["worst_mono_" + key] = max(ks["worst_mono_" + key], dm); ks["worst_unc_" + key] = max(ks["worst_unc_" + key], du)
        bykey = "p=%d %s" % (pm, hdesc[m]); ks["by_penalty_order_and_scale"][bykey] = ks["by_penalty_order_and_scale"].get(bykey, 0) + 1
        # With scales that are powers of two every operation of both fits is the same up to exact scaling, so the solver takes
        # the same path and the coefficients must agree whatever the conditioning.  With other scales (1e6, 1e9, ...) the two
        # problems differ by rounding; where the constraint is ACTIVE the non-negative solver may then settle on another active
        # set of an ill-conditioned problem (thorough tier, seed 1: a 2-d order-3 problem with oscillating data, 25 % apart, both
        # results non-decreasing, the unconstrained fits bit-identical) — the property does not promise more than a
        # non-decreasing result there, so such cases are measured, not judged.  Judged: powers of two always; other scales when
        # the monotonic fit at scale 1 equals the unconstrained one (constraint inactive).
        judged = pow2 or ks_rel(m1, u1) <= INACTIVE_TOL
        if dm > tol and not judged:
            ks["general_scale_active_not_judged"] = ks.get("general_scale_active_not_judged", 0) + 1
            ks["worst_mono_general_active_not_judged"] = max(ks.get("worst_mono_general_active_not_judged", 0.0), dm)
        if dm > tol and judged:
            report(ctx, acc, "knotscale:mono-differs", dict(base, max_rel_diff=dm, tolerance=tol),
                   "monotonic fit on rescaled axes (knots and abscissae times %s, smoothing times h^(2p), p = %s: the same objective) differs from the monotonic fit at scale 1 by %.3e of the largest coefficient (tolerance %.1e; the unconstrained fits differ by %.3e)" % (
                       hdesc, [d["penalty_order"] for d in dims], dm, tol, du))
        if du > tol:
            report(ctx, acc, "knotscale:unconstrained-differs", dict(base, max_rel_diff=du, tolerance=tol),
                   "unconstrained fit on rescaled axes (knots and abscissae times %s, smoothing times h^(2p), p = %s: the same objective) differs from the unconstrained fit at scale 1 by %.3e of the largest coefficient (tolerance %.1e)" % (
                       hdesc, [d["penalty_order"] for d in dims], du, tol))
        # inactive clause, one dimension only (there the code minimises the stated objective: code_objective_1d), at both scales
        if nd == 1:
            for tag, mono, unc in (("h", mh, uh), ("1", m1, u1)):
                scale = max(abs(x) for x in unc) or 1.0; prev = 0.0; inactive = True
                for x in unc:
                    if x - prev < 1e-3 * scale: inactive = False
                    prev = x
                if not inactive:
                    if tag == "h": ks["inactive_precondition_failed_class_%d" % cls] += 1
                    continue
                d = ks_rel(mono, unc); acc["evaluations"] += 1
                if tag == "h":
                    ks["inactive_checked_class_%d" % cls] += 1; ks["inactive_checked"] += 1
                    ks["worst_inactive_rel"] = max(ks["worst_inactive_rel"], d)
                if d > INACTIVE_TOL:
                    report(ctx, acc, "knotscale:inactive:differs:1d" if tag == "h" else "inactive:differs:1d", dict(base, max_rel_diff=d, at_scale=tag),
                           "1-d, constraint inactive (unconstrained fit at axis scale %s non-negative and increasing with margin) but the monotonic fit at that scale differs from it by %.3e of the largest coefficient (penalty order %d, smoothing %g at scale 1)" % (
                               hdesc[0] if tag == "h" else "1", d, pm, dims[0]["smoothing"]))

    # last, so that the first replay files of a run are property-level failing inputs (fits), then the matrices behind them
    if pen:
        npen = pen[2] if len(pen) > 2 else len(lines) // 3
        ks_penalty(ctx, acc, [(lines[q], lines[q + 1]) for q in range(0, min(len(lines) - 2, 3 * npen), 3)], pen[0], pen[1])


def new_ks():
    ks = {"problems": 0, "mono_ok": 0, "compared_pow2": 0, "compared_general": 0, "worst_mono_pow2": 0.0, "worst_unc_pow2": 0.0, "worst_mono_general": 0.0,
          "worst_unc_general": 0.0, "inactive_checked": 0, "worst_inactive_rel": 0.0, "by_penalty_order_and_scale": {},
          "penalty_matrices": 0, "worst_penalty_rel": 0.0, "penalty_exact_scaling": 0, "penalty_rounded_scaling": 0,
          "tolerances": {"power_of_two_scales": KS_POW2_TOL, "other_scales": KS_TOL, "inactive_1d": INACTIVE_TOL, "penalty_matrix": PEN_TOL}}
    for c in range(len(KS_CLASSES)):
        ks["inactive_checked_class_%d" % c] = 0; ks["inactive_precondition_failed_class_%d" % c] = 0
    return ks


def knot_scale(ctx, acc, dist, exe, mode):
    n = 900 if ctx.tier == "quick" else 9000
    if mode != "shipped": n //= 5
    base = os.path.join(ctx.scratch, "c10ks_" + mode)
    npen = 150 if ctx.tier == "quick" else 1500
    if mode != "shipped": npen //= 5
    rc, out, err, retries = run_harness(ctx, exe, ["knotscale", str(n), base + ".out", base + ".stats", str(npen), base + ".K", base + ".C"], mode)
    acc["hang_retries"] += retries
    if rc != 0:
        ctx.tie_ok = False
        last = []
        try: last = [l for l in open(base + ".out").read().splitlines() if l[:2] in ("P ", "KS")][-2:]
        except Exception: pass
        ctx.violation({"knotscale": True, "problem_line": last[0] if len(last) == 2 else None, "scale_line": last[1] if len(last) == 2 else None,
                       "harness_rc": rc, "stderr": err[-2000:]},
                      "knot-scale stream of the monotonic-fit harness %s (rc=%d) at the problem in the replay file: %s" % ("did not terminate in 3 attempts" if rc == 124 else "aborted", rc, err[-400:]))
        return
    st = json.load(open(base + ".stats"))
    st["classes"] = {str(i): c for i, c in enumerate(KS_CLASSES)}
    st["rule"] = ("problem it: penalty order of the monotonic dimension 1 + it mod 3; 2-d iff (it div 3) mod 3 = 2; data class (it div 9) mod 5; "
                  "scale of the monotonic dimension uniform over {2^20, 2^30, 2^-20, 1e6, 2^55|2^40|2^-30, 1e17|1e9|3e-5 (by penalty order 1|2|3)}; "
                  "smoothing 0.1..100 (class 1, monotonic dimension: 10..1000); four fits per problem")
    st["penalty_matrix_records"] = "every dimension of the first %d problems: calc_penalty(mono = 1 and 0) on the knots at scale 1 and on the rescaled knots against the exact matrices of the model" % npen
    dist.setdefault("knot_scale_stream", {})[mode] = st
    ks_evaluate(ctx, acc, base + ".out", (base + ".K", base + ".C", npen))


def judge_values(ctx, acc, prob, values, mono_ok):
    """the surface itself along monodim (C10_surface_monotone_B): for every line of grid points that differ in the monodim
    coordinate only, sorted by that coordinate, the exact value of the returned spline must be non-decreasing (instance of
    the theorem: a failure with monoAlongB true breaks the tie), and the implementation's double-precision values must be
    non-decreasing up to the rounding envelope of the two evaluations"""
    for key, pts in values.items():
        pts.sort(key=lambda q: q[0])
        for (x0, s0, m0, v0, c0), (x1, s1, m1, v1, c1) in zip(pts, pts[1:]):
            acc["value_pairs"] += 1
            if mono_ok and s1 < s0:
                ctx.tie_ok = False
                if len(ctx.broken) < 5: ctx.broken.append({"kind": "C10_surface_monotone instance: exact value decreases along monodim although monoAlongB holds", "lines": [c0, c1], "values": [str(s0), str(s1)]})
            if s1 > s0: acc["value_increasing"] += 1
            env = ENV_K * float(m0 + m1) * 2.0 ** -53
            if v0 != v0 or v1 != v1 or v1 - v0 < -env:
                report(ctx, acc, "value:decreasing", dict(describe(prob), points=[c0, c1], impl_values=[v0, v1], exact_values=[float(s0), float(s1)], envelope=env),
                       "the fitted surface decreases along monodim from x=%.17g to x=%.17g: %.17g -> %.17g (drop %.3e > envelope %.3e; exact values of the returned spline %.9g -> %.9g)" % (x0, x1, v0, v1, v0 - v1, env, float(s0), float(s1)))
            elif v1 < v0 and float(m0 + m1) > 0:
                acc["worst_value_drop_ratio"] = max(acc["worst_value_drop_ratio"], (v0 - v1) / (float(m0 + m1) * 2.0 ** -53))


def _ncoef(tline):
    w = tline.split(); nd = int(w[1]); p = 2
    for _ in range(nd):
        o, nk = int(w[p]), int(w[p + 1]); p += 3 + nk + 2 * o
    return w[p]


def strides(tline, m):
    w = tline.split(); nd = int(w[1]); p = 2; nax = []
    for _ in range(nd):
        o, nk = int(w[p]), int(w[p + 1]); nax.append(nk - o - 1); p += 3 + nk + 2 * o
    s1 = 1
    for v in nax[:m]: s1 *= v
    s2 = 1
    for v in nax[m + 1:]: s2 *= v
    return s1, nax[m], s2


def first_decreasing_pair(tline, m):
    s1, n, s2 = strides(tline, m); nc = int(_ncoef(tline)); cs = tline.split()[-nc:]
    for a in range(s1):
        for j in range(n - 1):
            for k in range(s2):
                p, q = a * s2 * n + j * s2 + k, a * s2 * n + (j + 1) * s2 + k
                if not (flt(cs[p]) <= flt(cs[q])):
                    return {"index": [a, j, k], "c[j]": flt(cs[p]), "c[j+1]": flt(cs[q]), "bits": [int(cs[p]), int(cs[q])]}
    return None


def new_acc():
    return {"fits": 0, "evaluations": 0, "mono_ok": 0, "deriv_points": 0, "deriv_positive": 0, "deriv_inexact": 0, "worst_neg_ratio": 0.0,
            "worst_err_ratio": 0.0, "inactive_checked": 0, "inactive_precondition_failed": 0, "worst_inactive_rel": 0.0, "scaled_checked": 0, "worst_scaled_rel": 0.0,
            "wscaled_checked": 0, "worst_wscaled_rel": 0.0, "dscaled_checked": 0, "worst_dscaled_rel": 0.0, "wscaled_by_k": [],
            "ws_inactive_checked": 0, "worst_ws_inactive_rel": 0.0, "inactive_skipped_weight_spread": 0, "hang_retries": 0, "distinct": set(), "reported": {},
            "value_points": 0, "value_pairs": 0, "value_increasing": 0, "worst_value_drop_ratio": 0.0, "inc_ok": 0, "knotscale": new_ks()}


def finish(ctx, acc, dist):
    ctx.coverage["evaluations"] = acc["evaluations"]
    ctx.coverage["distinct_nontrivial"] = len(acc["distinct"])
    ctx.coverage["rule"] = ("fit problems drawn from VERIF_SEED by harness/mono_harness.cpp (three streams: ordinary magnitudes; small-magnitude tables and gentle drifts; weight scales 2^-40..2^40, uniform and mixed, smoothing scaled alike or zero; and the knot-scale stream of c10_knotscale.h: each problem fitted at scale 1 and on axes scaled by 2^-30..2^55 / 3e-5..1e17 with smoothing times h^2p); "
                            "a case is non-trivial when the fit returned and its coefficients passed monoAlongB; distinct = distinct fitted tables")
    ctx.coverage["input_distribution"] = dist
    bins = {}
    for kk, d in acc["wscaled_by_k"]:
        b = "2^%d..%d" % (10 * (kk // 10), 10 * (kk // 10) + 9); e = bins.setdefault(b, {"comparisons": 0, "worst_rel": 0.0})
        e["comparisons"] += 1; e["worst_rel"] = max(e["worst_rel"], d)
    acc["wscaled_by_k"] = bins
    ctx.coverage["measured"] = {k: v for k, v in acc.items() if k != "distinct"}
    ctx.assumptions += [
        "float addition is monotone (a >= 0 -> fl(s+a) >= s) and double->float conversion preserves >= 0: IEEE-754 round-to-nearest, no NaN (hypothesis hadd of float_cumsum_monotone)",
        "well-posed problems only (smoothing > 0, penalty order >= 1, at least half of the grid cells present): NaN-producing singular systems are outside the property",
        "derivative envelope %d * 2^-53 * sum|c|prod|basis| for the double-precision evaluation; measured worst ratios reported" % ENV_K,
        "OMP_NUM_THREADS=1; a scheduling-dependent hang of walk_descents (property C12) is retried up to 3 times",
        "optimality of the constrained fit in the active case is C11's subject (nnls_normal_block3), not checked here",
        "scale equivariance fit(2^k z) = 2^k fit(z) and the inactive comparison are checked to %g of the largest coefficient; small-magnitude tables down to 2^-45 (no float32 subnormals)" % INACTIVE_TOL,
        "weight-scale equivariance fit(4^j w, 4^j lambda) = fit(w, lambda) checked to %g of the largest coefficient for overall weight scales 2^-40..2^40 (even exponents: exact scaling); weights mixed within one fit: half-spread up to 2^10 for structured patterns (gradient, two blocks) and 2^20 for weights scattered over the rows — beyond that the T-spline normal equations are numerically singular when the heavy region lies late along the monotonic dimension (NaN also from an independent double-precision Cholesky) and a region with weights below 1e-9 of the heaviest is invisible to the solver's stopping rule; inactive comparison for mixed weights to %g up to a half-spread of 2^4 / 2^10 only" % (INACTIVE_TOL, 256 * INACTIVE_TOL),
        "knot-scale equivariance (C10_knot_scale_equivariant): exact arithmetic; tied to the code by comparing fits at axis scale 1 and h to %g (all scales powers of two: systems bit-identical) / %g (other scales) of the largest coefficient; no under/overflow: |log2 h^p| <= 120" % (KS_POW2_TOL, KS_TOL),
    ]
    ctx.note("value_points=%d value_pairs=%d (increasing %d) worst_value_drop_ratio=%.1f inc_ok=%d" % (
        acc["value_points"], acc["value_pairs"], acc["value_increasing"], acc["worst_value_drop_ratio"], acc["inc_ok"]))
    ks = acc["knotscale"]
    ctx.note("knot-scale: problems=%d (4 fits each) mono_ok=%d compared power-of-two scales=%d worst mono/unc=%.2e/%.2e other scales=%d worst mono/unc=%.2e/%.2e 1-d inactive at scale h checked=%d worst=%.2e; penalty matrices code vs model=%d worst=%.2e" % (
        ks["problems"], ks["mono_ok"], ks["compared_pow2"], ks["worst_mono_pow2"], ks["worst_unc_pow2"], ks["compared_general"], ks["worst_mono_general"], ks["worst_unc_general"],
        ks["inactive_checked"], ks["worst_inactive_rel"], ks["penalty_matrices"], ks["worst_penalty_rel"]))
    ctx.note("fits=%d mono_ok=%d deriv_points=%d (positive %d) worst_neg_ratio=%.1f worst_err_ratio=%.1f inactive checked=%d (precondition failed %d) worst_inactive_rel=%.2e scaled checked=%d worst_scaled_rel=%.2e weight-scaled checked=%d worst_wscaled_rel=%.2e large-value-scaled checked=%d worst_dscaled_rel=%.2e weight-scale inactive checked=%d worst=%.2e hang_retries=%d reported=%s" % (
        acc["fits"], acc["mono_ok"], acc["deriv_points"], acc["deriv_positive"], acc["worst_neg_ratio"], acc["worst_err_ratio"],
        acc["inactive_checked"], acc["inactive_precondition_failed"], acc["worst_inactive_rel"], acc["scaled_checked"], acc["worst_scaled_rel"],
        acc["wscaled_checked"], acc["worst_wscaled_rel"], acc["dscaled_checked"], acc["worst_dscaled_rel"], acc["ws_inactive_checked"], acc["worst_ws_inactive_rel"], acc["hang_retries"], json.dumps(acc["reported"], sort_keys=True)))


def run(ctx):
    ctx.audit(extra_props=["C11"])
    nfits = 240 if ctx.tier == "quick" else 3000
    modes = ["shipped"] if ctx.tier == "quick" else ["shipped", "san"]
    acc = new_acc(); dist = {}
    for mode in modes:
        exe = build(ctx, mode)
        if not exe:
            ctx.tie_ok = False; ctx.broken.append({"kind": "harness build failed", "mode": mode}); continue
        base = os.path.join(ctx.scratch, "c10_" + mode)
        n = nfits if mode == "shipped" else nfits // 5
        rc, out, err, retries = run_harness(ctx, exe, [str(n), base + ".in", base + ".impl", base + ".stats", str(n), str(n)], mode)
        acc["hang_retries"] += retries
        if rc != 0:
            ctx.tie_ok = False
            last = ""
            try: last = [l for l in open(base + ".in").read().splitlines() if l.startswith("P")][-1]
            except Exception: pass
            ctx.violation(dict(describe(last) if last else {}, harness_rc=rc, stderr=err[-2000:]),
                          "monotonic-fit harness %s (rc=%d) at the problem in the replay file: %s" % ("did not terminate in 3 attempts" if rc == 124 else "aborted", rc, err[-400:]))
            continue
        dist[mode] = json.load(open(base + ".stats"))
        evaluate(ctx, base + ".in", base + ".impl", acc)
        knot_scale(ctx, acc, dist, exe, mode)
    large_fits(ctx, acc)
    finish(ctx, acc, dist)


def large_fits(ctx, acc):
    """Larger (about 500 coefficients) 3-d monotonic fits under ASan/UBSan: the active-set solver's factor has to grow
    (modify_factor -> recompute_factor); a memory error or a decreasing coefficient pair is a violation."""
    import psvlib
    exe = ctx.compile("c10_largefit", ["c10_largefit.cpp"], mode="san", defines=["PHOTOSPLINE_INCLUDES_SPGLAM"],
                      repo_c=psvlib.FITTER_C, libs=psvlib.FITTER_LIBS)
    if not exe:
        ctx.tie_ok = False; ctx.broken.append({"kind": "large-fit harness build failed"}); return
    seeds = [5, 6, 8, 11] + [1000 + 7 * ctx.seed + k for k in range(3 if ctx.tier == "quick" else 20)]
    rc, out, err = ctx.run([exe] + [str(x) for x in seeds], timeout=600, env={"OMP_NUM_THREADS": "1", "GOTO_NUM_THREADS": "1"})
    done = [l for l in out.splitlines() if l.startswith("ok ")]
    acc.setdefault("large_fits", 0); acc["large_fits"] += len(done)
    ctx.coverage["large_monotonic_fits"] = len(done)
    for l in done:
        if not l.endswith("decreasing_pairs=0"):
            ctx.report("largefit:decreasing", {"line": l, "replay_cmd": "python3 bin/check.py C10 --tier %s" % ctx.tier}, "large monotonic fit returned decreasing coefficients: " + l)
    if rc != 0:
        last = [l for l in err.splitlines() if l.startswith("seed ")]
        ctx.violation({"harness_rc": rc, "failing_seed_line": last[-1] if last else None, "stderr": err[-3000:], "seeds": seeds},
                      "large monotonic fit %s under ASan/UBSan (%s): %s" % ("hung" if rc == 124 else "aborted", last[-1] if last else "?", err[-600:].replace("\n", " | ")))


def replay(ctx, path):
    r = json.load(open(path))
    print(json.dumps({k: (v if len(str(v)) < 400 else str(v)[:400] + "...") for k, v in r.items()}, indent=1))
    ctx.audit(extra_props=["C11"])
    if not r.get("problem_line") or r["problem_line"].endswith("...") or (r.get("knotscale") and not r.get("scale_line")):
        run(ctx); return
    exe = build(ctx, "shipped")
    if not exe:
        ctx.tie_ok = False; ctx.broken.append({"kind": "harness build failed"}); return
    base = os.path.join(ctx.scratch, "replay")
    if r.get("knotscale"):
        open(base + ".p", "w").write(r["problem_line"] + "\n" + r["scale_line"] + "\n")
        rc, out, err, retries = run_harness(ctx, exe, ["ksreplay", base + ".p", base + ".out", base + ".K", base + ".C"], "replay")
        acc = new_acc()
        if rc != 0:
            ctx.violation(dict(r, harness_rc=rc), "knot-scale stream of the monotonic-fit harness rc=%d on the replayed problem" % rc)
        else:
            ks_evaluate(ctx, acc, base + ".out", (base + ".K", base + ".C"))
        finish(ctx, acc, {}); return
    open(base + ".p", "w").write(r["problem_line"] + "\n")
    rc, out, err, retries = run_harness(ctx, exe, ["replay", base + ".p", base + ".in", base + ".impl"], "replay")
    acc = new_acc()
    if rc != 0:
        ctx.violation(dict(describe(r["problem_line"]), harness_rc=rc), "monotonic-fit harness rc=%d on the replayed problem" % rc)
    else:
        evaluate(ctx, base + ".in", base + ".impl", acc)
    finish(ctx, acc, {})
