"""Shared machinery of the /verif checks.

Every check
  1. rebuilds the Lean library part it needs (model, theorems, driver) and audits it,
  2. rebuilds its harness from /repo's *working tree* (never from /repo/_build),
  3. runs the correspondence (implementation vs the executable Lean model) and the property oracle,
  4. reports violations / known findings, writes evidence/<id>.json.
See DESIGN.md section 2.
"""
import fcntl, hashlib, json, os, re, shutil, subprocess, sys, tempfile, time
from concurrent.futures import ThreadPoolExecutor

VERIF = os.path.dirname(os.path.dirname(os.path.abspath(__file__)))
REPO = os.environ.get("PSV_REPO", "/repo")
LEAN = os.path.join(VERIF, "lean")
DRIVER = os.path.join(LEAN, ".lake", "build", "bin", "psvdriver")
ALLOWED_AXIOMS = {"propext", "Classical.choice", "Quot.sound"}
FORBIDDEN = re.compile(r"\bsorry\b|\badmit\b|^\s*axiom\s|native_decide|bv_decide|implemented_by|\bunsafe\s|maxHeartbeats\s+0|\bopaque\s")

SHIPPED_FLAGS = ["-O3", "-msse2", "-msse3", "-msse4", "-msse4.1", "-msse4.2", "-mno-avx", "-DNDEBUG"]
SAN_FLAGS = ["-O1", "-g", "-fsanitize=address,undefined", "-fno-sanitize-recover=all", "-fno-omit-frame-pointer"]
CORE_CPP = ["src/core/bspline.cpp", "src/core/fitsio.cpp", "src/core/convolve.cpp", "src/cinter/splinetable.cpp"]
FITTER_C = ["src/fitter/glam.c", "src/fitter/nnls.c", "src/fitter/splineutil.c", "src/fitter/cholesky_solve.c"]
FITTER_LIBS = ["-lcholmod", "-lspqr", "-lsuitesparseconfig", "-lopenblas", "-lpthread"]
HOOK_GUARD = "PHOTOSPLINE_VERIF"

TRUSTED_BASE = [
    "Lean 4.33.0 kernel (theorems re-checked by `lake build`; thorough tier: leanchecker)",
    "axioms allowed in property theorems: propext, Classical.choice, Quot.sound (audited by #print axioms each run)",
    "no sorry/admit/axiom/native_decide/bv_decide/implemented_by/unsafe in lean/PsV (grep each run)",
    "correspondence harness + bin/psvlib.py differential runner (C++ built from /repo working tree each run)",
    "Lean compiler/runtime executing the model in psvdriver (Float/Float32 native ops are opaque to the kernel; used only for the tie)",
    "g++ 12 x86-64 SSE code generation (no FMA contraction), IEEE-754 binary32/binary64",
]


def sh(cmd, **kw):
    return subprocess.run(cmd, stdout=subprocess.PIPE, stderr=subprocess.STDOUT, text=True, **kw)


def strip_lean_comments(src):
    out, i, depth = [], 0, 0
    n = len(src)
    while i < n:
        if src.startswith("/-", i):
            depth += 1; i += 2; continue
        if depth and src.startswith("-/", i):
            depth -= 1; i += 2; continue
        if depth:
            if src[i] == "\n": out.append("\n")
            i += 1; continue
        if src.startswith("--", i):
            j = src.find("\n", i)
            i = n if j < 0 else j
            continue
        out.append(src[i]); i += 1
    return "".join(out)


class Ctx:
    def __init__(self, prop, tier, seed):
        self.prop, self.tier, self.seed = prop, tier, seed
        self.t0 = time.time()
        self.scratch = tempfile.mkdtemp(prefix="psv-%s-" % prop)
        self.violations = 0
        self.known = 0
        self.notes = []
        self.coverage = {"samples": [], "obligations": 0, "discharged": 0,
                         "checker_cmd": "cd /verif/lean && lake build PsV.Props.%s psvdriver && lake env lean <#print axioms of every theorem in PsV/Props/%s.lean>" % (prop, prop),
                         "trusted_base": list(TRUSTED_BASE), "evaluations": 0, "distinct_nontrivial": 0}
        self.assumptions = []
        self.proof_ok = True
        self.tie_ok = True
        self.broken = []  # names of theorems / correspondences that no longer check
        self._kf = None

    # ---------------------------------------------------------------- Lean
    def lean_build(self, targets):
        lock = open(os.path.join(LEAN, ".build.lock"), "w")
        fcntl.flock(lock, fcntl.LOCK_EX)
        try:
            r = sh(["lake", "build"] + targets, cwd=LEAN)
        finally:
            fcntl.flock(lock, fcntl.LOCK_UN); lock.close()
        return r.returncode == 0, r.stdout

    def prop_theorems(self, prop=None):
        prop = prop or self.prop
        path = os.path.join(LEAN, "PsV", "Props", prop + ".lean")
        src = strip_lean_comments(open(path).read())
        ns = re.findall(r"^namespace\s+(\S+)", src, re.M)
        prefix = (ns[0] + ".") if ns else ""
        return [prefix + m for m in re.findall(r"^(?:private\s+)?theorem\s+([^\s:({\[]+)", src, re.M)]

    def lean_sources(self):
        res = []
        for root, _, files in os.walk(os.path.join(LEAN, "PsV")):
            for f in files:
                if f.endswith(".lean"): res.append(os.path.join(root, f))
        res.append(os.path.join(LEAN, "Main.lean"))
        return sorted(res)

    def audit(self, extra_props=()):
        """Build Props/<prop>, the driver; grep for forbidden constructs; #print axioms."""
        props = [self.prop] + list(extra_props)
        ok, log = self.lean_build(["PsV.Props.%s" % p for p in props] + ["psvdriver"])
        theorems = []
        for p in props:
            theorems += self.prop_theorems(p)
        self.coverage["obligations"] = len(theorems)
        if not ok:
            self.proof_ok = False
            errs = [l for l in log.splitlines() if "error" in l][:20]
            self.broken.append({"kind": "lake build failed", "modules": props, "errors": errs})
            self.note("lake build FAILED: " + " | ".join(errs[:3]))
        bad = []
        for path in self.lean_sources():
            for ln, line in enumerate(strip_lean_comments(open(path).read()).splitlines(), 1):
                if FORBIDDEN.search(line):
                    bad.append("%s:%d: %s" % (os.path.relpath(path, VERIF), ln, line.strip()))
        if bad:
            self.proof_ok = False
            self.broken.append({"kind": "forbidden construct", "hits": bad[:20]})
            self.note("forbidden constructs: %s" % bad[:3])
        discharged, axioms_seen = 0, {}
        if ok:
            f = os.path.join(self.scratch, "axioms.lean")
            with open(f, "w") as fh:
                for p in props: fh.write("import PsV.Props.%s\n" % p)
                for t in theorems: fh.write("#print axioms %s\n" % t)
            r = sh(["lake", "env", "lean", f], cwd=LEAN)
            out = r.stdout
            for t in theorems:
                m = re.search(r"'%s' depends on axioms: \[([^\]]*)\]" % re.escape(t), out, re.S)
                if m: axs = {a.strip() for a in m.group(1).replace("\n", " ").split(",") if a.strip()}
                elif re.search(r"'%s' does not depend on any axioms" % re.escape(t), out): axs = set()
                else: axs = {"<not found>"}
                axioms_seen[t] = sorted(axs)
                if axs <= ALLOWED_AXIOMS: discharged += 1
                else:
                    self.proof_ok = False
                    self.broken.append({"kind": "axiom audit", "theorem": t, "axioms": sorted(axs)})
        self.coverage["discharged"] = discharged
        self.coverage["theorems"] = axioms_seen
        self.coverage["samples"].append({"obligation": theorems[0] if theorems else None, "axioms": axioms_seen.get(theorems[0]) if theorems else None})
        if self.tier == "thorough" and ok:
            for p in props:
                r = sh(["lake", "env", "leanchecker", "PsV.Props.%s" % p], cwd=LEAN)
                self.coverage.setdefault("leanchecker", {})[p] = (r.returncode == 0)
                if r.returncode != 0:
                    self.proof_ok = False
                    self.broken.append({"kind": "leanchecker", "module": p, "out": r.stdout[-400:]})
        return ok

    def driver_ok(self):
        return os.path.exists(DRIVER)

    def run_driver(self, name, infile, outfile):
        with open(infile) as fi, open(outfile, "w") as fo:
            r = subprocess.run([DRIVER, name], stdin=fi, stdout=fo, stderr=subprocess.PIPE, text=True)
        return r.returncode == 0

    # ---------------------------------------------------------------- harness
    def compile(self, name, harness_srcs, mode="shipped", defines=(), repo_cpp=CORE_CPP, repo_c=(), libs=(), extra=(), cxx="g++", include_force=None):
        """Compile harness + repo sources from the working tree into scratch/<name>. Returns path or None."""
        flags = list(SHIPPED_FLAGS if mode == "shipped" else SAN_FLAGS)
        flags += ["-D" + HOOK_GUARD] + ["-D" + d for d in defines] + list(extra)
        inc = ["-I" + os.path.join(REPO, "include"), "-I/usr/include/suitesparse", "-I" + os.path.join(VERIF, "harness")]
        objdir = os.path.join(self.scratch, name + ".o"); os.makedirs(objdir, exist_ok=True)
        jobs = []
        for s in harness_srcs:
            src = s if os.path.isabs(s) else os.path.join(VERIF, "harness", s)
            jobs.append(([cxx, "-std=c++11", "-w"] + flags + inc + ["-c", src, "-o", os.path.join(objdir, "h_" + os.path.basename(s) + ".o")]))
        for s in repo_cpp:
            jobs.append(([cxx, "-std=c++11", "-w"] + flags + inc + ["-c", os.path.join(REPO, s), "-o", os.path.join(objdir, os.path.basename(s) + ".o")]))
        for s in repo_c:
            cmd = ["gcc", "-std=gnu99", "-w"] + flags + inc
            if include_force and s in include_force: cmd += ["-include", include_force[s]]
            jobs.append((cmd + ["-c", os.path.join(REPO, s), "-o", os.path.join(objdir, os.path.basename(s) + ".o")]))
        with ThreadPoolExecutor(max_workers=16) as ex:
            results = list(ex.map(lambda c: sh(c), jobs))
        for c, r in zip(jobs, results):
            if r.returncode != 0:
                self.note("compile failed: %s\n%s" % (" ".join(c[-4:]), r.stdout[-1500:]))
                return None
        exe = os.path.join(self.scratch, name)
        objs = [os.path.join(objdir, o) for o in sorted(os.listdir(objdir))]
        r = sh([cxx] + flags + objs + ["-o", exe, "-lcfitsio"] + list(libs) + ["-lm", "-ldl"])
        if r.returncode != 0:
            self.note("link failed: %s" % r.stdout[-1500:])
            return None
        return exe

    def run(self, cmd, timeout=600, env=None, cwd=None):
        e = dict(os.environ); e["VERIF_SEED"] = str(self.seed)
        e.setdefault("ASAN_OPTIONS", "detect_leaks=0:abort_on_error=0")
        e.setdefault("UBSAN_OPTIONS", "print_stacktrace=1")
        if env: e.update(env)
        try:
            r = subprocess.run(cmd, stdout=subprocess.PIPE, stderr=subprocess.PIPE, text=True, timeout=timeout, env=e, cwd=cwd or self.scratch, errors="replace")
            return r.returncode, r.stdout, r.stderr
        except subprocess.TimeoutExpired as ex:
            return 124, (ex.stdout or b"").decode(errors="replace") if isinstance(ex.stdout, bytes) else (ex.stdout or ""), "TIMEOUT"

    # ---------------------------------------------------------------- reporting
    def note(self, s):
        self.notes.append(s)
        print("[%s] %s" % (self.prop, s), flush=True)

    def known_findings(self):
        if self._kf is None:
            with open(os.path.join(VERIF, "known_findings.json")) as f:
                self._kf = json.load(f)
        return [k for k in self._kf.get("findings", []) if k["property"] == self.prop]

    def report(self, signature, replay, what):
        """A property violation with a concrete failing input. Known finding → KNOWN-FINDING line."""
        for k in self.known_findings():
            if k["signature"] == signature:
                if not k.get("_printed"):
                    print("KNOWN-FINDING: property=%s %s" % (self.prop, k["what"]), flush=True)
                    k["_printed"] = True
                self.known += 1
                return False
        self.violation(replay, what)
        return True

    def violation(self, replay, what, nfi=False):
        self.violations += 1
        if self.violations > 5:
            return None
        os.makedirs(os.path.join(VERIF, "replays"), exist_ok=True)
        body = dict(replay); body["property"] = self.prop; body["what"] = what; body["seed"] = self.seed; body["tier"] = self.tier
        h = hashlib.sha1(json.dumps(body, sort_keys=True, default=str).encode()).hexdigest()[:12]
        path = os.path.join(VERIF, "replays", "%s-%s.json" % (self.prop, h))
        with open(path, "w") as f: json.dump(body, f, indent=1, default=str)
        if True:
            print("VIOLATION property=%s replay=%s%s" % (self.prop, path, " no-failing-input-found" if nfi else ""), flush=True)
            print("  -> " + what[:300], flush=True)
        return path

    def conclude_broken(self):
        """Proof obligation or correspondence broken but no failing input found."""
        if (not self.proof_ok or not self.tie_ok) and self.violations == 0:
            self.violation({"broken": self.broken, "replay_cmd": "python3 bin/check.py %s --tier %s" % (self.prop, self.tier)},
                           "proof obligation or model/implementation correspondence no longer checks: %s" % json.dumps(self.broken, default=str)[:600], nfi=True)

    def finish(self, level="proof"):
        self.conclude_broken()
        ev = {"property_id": self.prop, "tier": self.tier, "seed": self.seed, "level": level,
              "coverage": self.coverage, "assumptions": self.assumptions, "wall_s": round(time.time() - self.t0, 2),
              "violations": self.violations}
        ev["coverage"]["known_findings_hit"] = self.known
        ev["coverage"]["proof_ok"] = self.proof_ok
        ev["coverage"]["tie_ok"] = self.tie_ok
        ev["coverage"]["notes"] = self.notes[-20:]
        # evidence/<id>.json describes runs against /repo itself; a run against another tree (PSV_REPO=<scratch>, used to
        # try seeded changes and repairs) leaves its record under replays/ instead
        evdir = os.path.join(VERIF, "evidence") if os.path.realpath(REPO) == "/repo" else os.path.join(VERIF, "replays", "evidence-other-tree")
        os.makedirs(evdir, exist_ok=True)
        with open(os.path.join(evdir, self.prop + ".json"), "w") as f:
            json.dump(ev, f, indent=1, default=str)
        shutil.rmtree(self.scratch, ignore_errors=True)
        print("[%s] tier=%s seed=%d obligations=%d discharged=%d evaluations=%d violations=%d known=%d wall=%.1fs" % (
            self.prop, self.tier, self.seed, self.coverage["obligations"], self.coverage["discharged"],
            self.coverage["evaluations"], self.violations, self.known, time.time() - self.t0), flush=True)
        return 1 if self.violations else 0
