#!/bin/bash
# Build /repo's working tree (hook guard OFF: no -DPHOTOSPLINE_VERIF) in a scratch directory and run
# the project's own test-suite (the 21 baseline tests). Scratch is removed afterwards.
set -u
REPO=${PSV_REPO:-/repo}
d=$(mktemp -d /tmp/psv-baseline-XXXXXX)
trap 'rm -rf "$d"' EXIT
cmake -G Ninja -S "$REPO" -B "$d/b" -DCMAKE_BUILD_TYPE=RelWithDebInfo -DCMAKE_CXX_FLAGS=-Wno-error -DCMAKE_C_FLAGS=-Wno-error > "$d/cmake.log" 2>&1 || { tail -30 "$d/cmake.log"; exit 2; }
cmake --build "$d/b" -j16 --target photospline-test photospline-test-templated photospline-test-fit > "$d/build.log" 2>&1 || { tail -40 "$d/build.log"; exit 2; }
ctest --test-dir "$d/b" -j8 --timeout 1800 --output-junit "$d/junit.xml" 2>&1 | tail -15
rc=${PIPESTATUS[0]}
python3 - "$d/junit.xml" <<'PY'
import sys, xml.etree.ElementTree as ET
try:
    r = ET.parse(sys.argv[1]).getroot()
    print("junit:", {k: r.attrib.get(k) for k in ("tests", "failures", "disabled", "skipped")})
except Exception as e:
    print("junit parse failed", e)
PY
exit $rc
