#!/usr/bin/env python3
"""Resolve merge conflicts in lean/Main.lean by taking the union of both sides (imports and driver entries)."""
import re, os
p = os.path.join(os.path.dirname(os.path.dirname(os.path.abspath(__file__))), "lean", "Main.lean")
s = open(p).read()
s = re.sub(r"<<<<<<< [^\n]*\n|=======\n|>>>>>>> [^\n]*\n", "", s)
lines = s.splitlines()
imports = []
for l in lines:
    if l.startswith("import "):
        l = l.rstrip(",")
        if l not in imports: imports.append(l)
entries = []
for l in lines:
    m = re.match(r'\s*\[?\s*\("(\w+)",\s*(.*?)\)\s*[,\]]*\s*$', l)
    if m and (m.group(1), m.group(2)) not in entries: entries.append((m.group(1), m.group(2)))
body = "\n".join(imports) + '''
open PsV.Driver

def stateless (f : List String → String) : IO Unit := do
  lineLoop (← IO.getStdin) (← IO.getStdout) f

def drivers : List (String × IO Unit) :=
  [''' + ",\n   ".join('("%s", %s)' % e for e in entries) + ''']

def main (args : List String) : IO UInt32 := do
  match args with
  | [p] =>
    match drivers.lookup p with
    | some run => run; return 0
    | none => IO.eprintln s!"unknown driver {p}"; return 2
  | _ => IO.eprintln "usage: psvdriver <driver>"; return 2
'''
open(p, "w").write(body)
print(body[:900])
