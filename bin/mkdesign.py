#!/usr/bin/env python3
"""Regenerates the generated parts of DESIGN.md (between the BEGIN/END GENERATED markers):
per-property builder notes from integration/*.json, the defect list from known_findings.json and the table of
seeded changes from seeded/*/meta.json."""
import json, os, re, glob
V = os.path.dirname(os.path.dirname(os.path.abspath(__file__)))
out = []
import sys
sys.path.insert(0, os.path.join(V, "bin"))
import psvlib
out.append("### A.8 Theorem inventory (every `theorem` in `lean/PsV/Props/<ID>.lean`; each is an audited obligation)\n")
for f in sorted(glob.glob(os.path.join(V, "lean", "PsV", "Props", "C*.lean"))):
    src = psvlib.strip_lean_comments(open(f).read())
    names = re.findall(r"^(?:private\s+)?theorem\s+([^\s:({\[]+)", src, re.M)
    out.append("* **%s** (%d): %s" % (os.path.basename(f)[:-5], len(names), ", ".join("`%s`" % n for n in names)))
out.append("")
out.append("### A.9 Per-property notes (from `integration/<ID>.json`, written by the builder of each check)\n")
for f in sorted(glob.glob(os.path.join(V, "integration", "C*.json"))):
    d = json.load(open(f)); pid = os.path.basename(f)[:-5]
    out.append("#### %s\n" % pid)
    out.append(d.get("design_notes", "").strip() + "\n")
k = json.load(open(os.path.join(V, "known_findings.json")))
out.append("### A.10 Genuine defects\n")
out.append("Repaired in /repo by `fix:` commits (each line: property, commit, what failed):\n")
for l in k["fixed"]: out.append("* " + l[len("fixed: "):] if l.startswith("fixed: ") else "* " + l)
out.append("\nRecorded, not repaired (known findings; the checks print `KNOWN-FINDING` for exactly these signatures and report any other violation):\n")
for f in k["findings"]: out.append("* **%s** `%s` — %s" % (f["property"], f["signature"], f["what"]))
out.append("\n### A.11 Seeded changes (independent agents, given only the property text) and which check catches them\n")
out.append("| id | breaks | what it needs to manifest | confirmed (tests pass, demo fails with / passes without) | quick check on the patched tree |")
out.append("|---|---|---|---|---|")
for d in sorted(glob.glob(os.path.join(V, "seeded", "*"))):
    mf = os.path.join(d, "meta.json")
    if not os.path.exists(mf): continue
    m = json.load(open(mf)); c = m.get("confirmation_by_integrator", {}); a = m.get("agent_meta", {})
    needs = str(a.get("needs", "")).replace("|", "/").replace("\n", " ")[:260]
    det = c.get("detected_note") or ("reports VIOLATION" if c.get("check_reports_violation") else ("MISSED" if c.get("check_reports_violation") is False else "not run"))
    out.append("| %s | %s | %s | %s | %s |" % (os.path.basename(d), m.get("breaks_property"), needs, "yes" if c.get("confirmed") else "NO: " + str({x: c.get(x) for x in ("testsuite_with_change", "demo_with_change_rc", "demo_without_change_rc")}), det))
gen = "\n".join(out) + "\n"
p = os.path.join(V, "DESIGN.md")
s = open(p).read()
B, E = "<!-- BEGIN GENERATED -->", "<!-- END GENERATED -->"
if B not in s:
    marker = "---------------------------------------------------------------------------------------------\n(Plan of record follows.)"
    s = s.replace(marker, B + "\n" + E + "\n\n" + marker)
s = s[:s.index(B) + len(B)] + "\n" + gen + s[s.index(E):]
open(p, "w").write(s)
print("DESIGN.md generated part: %d lines" % gen.count("\n"))
