#!/usr/bin/env python3
"""Regenerates MANIFEST.json from the table below (kept in one place so it always validates)."""
import json, os
V = os.path.dirname(os.path.dirname(os.path.abspath(__file__)))
ALL = ["C%02d" % i for i in range(1, 21)]
CHECKS = {
 "C01": dict(text="Lean theorem C01_eval_eq_spec_partial: for every well-formed table (any number of dimensions, any orders, any admissible knot vector incl. the minimum length and repeated knots, arbitrary padding values) and every point the lookup accepts, the model of ndsplineeval (margin loops, de Boor recurrence, re-indexing, block walk) equals the sum over ALL coefficients of coefficient x product of Cox-de Boor basis functions with the property's knot convention, over any linearly ordered field; C01_ones (partition of unity); C01_callOp for operator(); C01_rounding_envelope_partial / C01_rounded_eval_near_spec_partial: the same model run with every operation and every store rounded by ANY roundings of relative error eps (the standard model of IEEE arithmetic without under/overflow, C01_standard_model) stays within ((1+eps)^K-1) * sum|coef|*prod B of the specification, K = 3+ndim(7 maxorder+3)+2 prod(order+1), at every point the lookup accepts — interior, both margins, exactly on knots; hypotheses of the exact theorem (C01_rounding_envelope_all_partial; C01_rounding_envelope_partial is the interior case with explicit hypotheses) — and C01_envelope_linear shows this is below the envelope the check allows (derivatives and underflow stay with the measured envelope). Tied to the code by running the same Lean definitions at IEEE double/float storage (bit-identical to ndsplineeval<double|float> on every case) and by comparing the C++ result with the exact rational specification inside a rounding envelope.",
             note="Trusted: Lean kernel + 3 standard axioms; hand-written model validated bit-for-bit each run; floating-point rounding is outside the theorem (envelope K*u*S assumed, worst measured ratio reported); one input class is excluded from the theorem and listed as known finding (x == knots[naxes] with an empty last interval; Lean witness C01_degenerate_upper_end).",
             technique="Lean 4 proof (induction over the de Boor recurrence, window/sum lemmas over dimensions) + bit-exact differential run of the model + exact-rational oracle", ref="4/C01"),
 "C02": dict(text="Lean theorems, over any linearly ordered field, any number of dimensions, any orders and admissible knot vectors: C02_mask_eval_eq_spec_partial (evaluation with any derivative bitmask = sum over all coefficients of coefficient x product of basis functions or their knot-difference derivative formula, one-sided convention of C01), C02_deriv_eval_eq_spec_partial (ndsplineeval_deriv with arbitrary per-dimension derivative orders = the iterated formula), C02_formula_is_derivative / C02_formula_is_iterated_derivative (the k-fold formula is Polynomial.derivative^[k] of the polynomial piece, repeated knots allowed), C02_gradient_eq_mask_evals (for EVERY arithmetic, orders >= 1: ndsplineeval_gradient = [ndsplineeval(.,0), ndsplineeval(.,1<<0), ..., ndsplineeval(.,1<<(ndim-1))] operation for operation, hence bit for bit) and C02_gradient_eq_spec_partial (each lane = the specification sum), order-0 and above-order derivatives are zero. Tied to the code by running the same definitions at IEEE double/float storage (bit-identical to ndsplineeval, ndsplineeval_deriv, ndsplineeval_gradient on every case) and by comparing the C++ results with the exact rational derivative inside a rounding envelope.",
             note="Two input classes are excluded from the theorems and listed as known findings (degenerate upper end as in C01; derivative order >= 2 exactly at a knot >= knots[naxes], where the recursive routine is right-continuous). C02_formula_is_iterated_derivative shows the k-fold knot-difference formula is Polynomial.derivative^[k] of the piece for every k (non-decreasing knots). Rounding envelope assumed.",
             technique="Lean 4 proof (de Boor recurrence, derivative combination, product-rule derivative = knot-difference formula, window/sum lemmas) + bit-exact differential run + exact-rational oracle", ref="4/C02"),
 "C03": dict(text="Lean theorems: C03_dispatch_sound_templated/_generic about the dispatch table REGENERATED from bspline_eval.h on every run (for every list of per-dimension orders the routine pair selected by get_evaluator has template arguments describing exactly that table); C03_generic_loop_is_walk / C03_templated_loop_is_generic / C03_selected_core_eq_generic: the odometer loops as written (while/break of the generic core, for+tail of the templated cores, carry loop, incremental basis_tree update) equal the nested block walk for EVERY arithmetic, and the selected core has the table's chunk count, hence returns bit for bit what the generic core returns; gradient value/derivative lanes are operation-for-operation the rows of plain evaluation. Tied to the code by the translator plus a bitwise comparison, in the real binary, of generic members / evaluator objects / call operators / C interface / gradient lanes, built with and without PHOTOSPLINE_NO_EVAL_TEMPLATES, and of the generic path with the model.",
             note="Trusted: tools/gen_dispatch.py (fails closed), Lean kernel. The templated loop bodies are modelled by their shape and chunk count (template arguments substituted for run-time orders); the SIMD lane loops are modelled as independent scalar walks.",
             technique="translator (source -> Lean table) + Lean 4 proof (decide over the generated table lifted to all order lists; induction over odometer digits) + bitwise path comparison", ref="4/C03"),
 "C05": dict(text="Lean theorems: a NaN coordinate is rejected before any search and every non-NaN coordinate terminates with centres in [order, nknots-order-2] (C05_nan_lookup_rejected + C04); C05_eval_reads_owned: for EVERY arithmetic (arbitrary comparison outcomes: NaN, infinities, anything) and centres in range, ndsplineeval / ndsplineeval_deriv (any bitmask, any derivative orders) depend only on knots[-order .. nknots+order-1] and coefficients[0 .. ncoef-1], i.e. every index they use lies in owned storage, and all loops are fuel-bounded; the same for every lane of ndsplineeval_gradient (C05_gradient_reads_owned); requests beyond the SIMD capacity are refused. Tied to the code by an ASan+UBSan+assert build of every entry point on tables allocated with the library's own idiom (red zones exactly at +-order), with arbitrary IEEE doubles, and by bit comparison of every returned value with the model.",
             note="The theorem is about the model's index arithmetic (validated bit-for-bit against the code each run); absence of UB in the compiled code is observed under sanitizers, not proved. Uninitialised-but-owned padding may be read (allowed by the property; C01 proves results do not depend on it).",
             technique="Lean 4 proof (dependence-on-owned-memory by congruence, any arithmetic) + sanitizer differential run", ref="4/C05"),
 "C04": dict(text="Lean theorems C04_searchAxis / C04_searchCenters (any linear order, any number of dimensions, any well-formed knot vector): lookup rejects exactly outside (first,last], always terminates, centre within [order, nknots-order-2] and bracketing; tied to the code by exact equality of searchcenters / tablesearchcenters / evaluator.searchcenters with the executable model on order-isomorphic integer keys, plus the theorem's right-hand side evaluated directly on the implementation's answers.",
             note="Trusted: Lean kernel; axioms propext/Classical.choice/Quot.sound; hand-written model of searchcenters validated differentially each run (not translated); doubles compared through an order-isomorphic integer key; uint32 arithmetic assumed not to wrap (nknots < 2^31).",
             technique="Lean 4 proof (binary-search invariant by induction on fuel) + differential correspondence model vs code", ref="4/C04"),
}
# checks delivered by builders: text comes from integration/<ID>.json; only the ids listed here are claimed
ENABLED_FROM_INTEGRATION = ["C02", "C06", "C07", "C08", "C09", "C10", "C11", "C12", "C13", "C14", "C15", "C16", "C17", "C18", "C19", "C20"]
for _p in ENABLED_FROM_INTEGRATION:
    _m = json.load(open(os.path.join(V, "integration", _p + ".json")))["manifest"]
    _tech = _m.get("technique", "proof")
    if len(_tech) < 12: _tech = "Lean 4 proof about an executable model + differential correspondence with the implementation"
    CHECKS[_p] = dict(text=_m["text"], note=_m["note"], technique=_tech, ref=_m.get("ref", "4/" + _p))
NA_REASON = "check not built yet in this round (model/theorems in progress); not claimed"
def main():
    checks = []
    for p in ALL:
        if p not in CHECKS: continue
        c = CHECKS[p]
        checks.append({"property_id": p,
                       "quick_cmd": "python3 bin/check.py %s --tier quick" % p,
                       "thorough_cmd": "python3 bin/check.py %s --tier thorough" % p,
                       "evidence_file": "/verif/evidence/%s.json" % p,
                       "replay_cmd_template": "python3 bin/check.py %s --replay {path}" % p,
                       "engine": "psv",
                       "level_claimed": {"category": "proof", "text": c["text"], "design_ref": c["ref"]},
                       "level_note": c["note"], "technique": c["technique"]})
    m = {"version": 1, "setup_cmd": "python3 bin/setup.py",
         "hooks": {"guard": "PHOTOSPLINE_VERIF", "enable": "harnesses compile /repo sources with -DPHOTOSPLINE_VERIF (no hook is currently needed: private access via #define, allocator template parameter, forced-include shims and libc interposition are used instead)",
                   "baseline_off_cmd": "bash bin/baseline_tests.sh", "source_commits": [], "add_only": True},
         "engines": [{"name": "psv", "path": "/verif/lean", "serves_properties": sorted(CHECKS), "kind_free_text": "Lean 4 model + theorems (lean/PsV), Mathlib-free compiled driver (psvdriver), C++ correspondence harnesses (harness/), runner bin/check.py"}],
         "checks": checks,
         "notes": "See DESIGN.md. known_findings.json lists recorded and fixed defects.",
         "not_applicable": [{"property_id": p, "reason": NA_REASON} for p in ALL if p not in CHECKS]}
    with open(os.path.join(V, "MANIFEST.json"), "w") as f: json.dump(m, f, indent=1)
    import jsonschema
    jsonschema.validate(m, json.load(open("/root/.vp/MANIFEST.schema.json")))
    print("MANIFEST.json written:", len(checks), "checks")
if __name__ == "__main__": main()
