#!/usr/bin/env python3
"""Regenerates MANIFEST.json from the table below (kept in one place so it always validates)."""
import json, os
V = os.path.dirname(os.path.dirname(os.path.abspath(__file__)))
ALL = ["C%02d" % i for i in range(1, 21)]
CHECKS = {
 "C01": dict(text="Lean theorem C01_eval_eq_spec_partial: for every well-formed table (any number of dimensions, any orders, any admissible knot vector incl. the minimum length and repeated knots, arbitrary padding values) and every point the lookup accepts, the model of ndsplineeval (margin loops, de Boor recurrence, re-indexing, block walk) equals the sum over ALL coefficients of coefficient x product of Cox-de Boor basis functions with the property's knot convention, over any linearly ordered field; C01_callOp for operator(). Tied to the code by running the same Lean definitions at IEEE double/float storage (bit-identical to ndsplineeval<double|float> on every case) and by comparing the C++ result with the exact rational specification inside a rounding envelope.",
             note="Trusted: Lean kernel + 3 standard axioms; hand-written model validated bit-for-bit each run; floating-point rounding is outside the theorem (envelope K*u*S assumed, worst measured ratio reported); one input class is excluded from the theorem and listed as known finding (x == knots[naxes] with an empty last interval; Lean witness C01_degenerate_upper_end).",
             technique="Lean 4 proof (induction over the de Boor recurrence, window/sum lemmas over dimensions) + bit-exact differential run of the model + exact-rational oracle", ref="4/C01"),
 "C02": dict(text="Lean theorems: derivative along an order-0 dimension is zero (code and spec), gradient lanes are built from exactly the rows of plain / single-derivative evaluation for every arithmetic (C02_gradient_rows; so lane 0 = value, lane 1+d = bitmask derivative, bit for bit). The identity between the derivative rows and the true derivative is carried by the exact-rational oracle (knot-difference formula applied to the Cox-de Boor specification) and by the bit-exact run of the model of bspline_deriv_nonzero / bspline_deriv / ndsplineeval_deriv; partial as a proof.",
             note="Partial: the theorem 'derivative row = derivative of the specification piece' is not yet proved in Lean (checked per input in exact arithmetic); rounding envelope assumed; two input classes are known findings (degenerate upper end; derivative order >= 2 exactly at a knot >= knots[naxes]).",
             technique="Lean 4 proof (law-free row identities) + bit-exact differential run + exact-rational derivative oracle", ref="4/C02"),
 "C03": dict(text="Lean theorems C03_dispatch_sound_templated/_generic about the dispatch table REGENERATED from bspline_eval.h on every run (tools/gen_dispatch.py): for every list of per-dimension orders (unbounded) the routine pair selected by get_evaluator has template arguments that describe exactly that table; SIMD capacity constants regenerated; value/derivative lanes of the gradient are operation-for-operation the rows of plain evaluation for every arithmetic. Tied to the code by the translator plus a bitwise comparison, in the real binary, of generic members / evaluator objects (whatever they dispatch to) / call operators / C interface / gradient lanes, built with and without PHOTOSPLINE_NO_EVAL_TEMPLATES, and of the generic path with the model.",
             note="Trusted: tools/gen_dispatch.py (fails closed), Lean kernel. Loop bodies of the templated cores are compared with the generic core only in the binary (bitwise), not in Lean.",
             technique="translator (source -> Lean table) + Lean 4 proof by decide over the generated table lifted to all order lists + bitwise path comparison", ref="4/C03"),
 "C05": dict(text="Lean theorems: NaN coordinates are rejected by the lookup before any search (C05_nan_lookup_rejected), non-NaN coordinates terminate with centres in [order, nknots-order-2] (C04). Tied to the code by an ASan+UBSan+assert build of every entry point on tables allocated with the library's own idiom (red zones exactly at +-order), with arbitrary IEEE doubles (NaN payloads, infinities, denormals, knots and neighbours), and by bit comparison of every returned value with the model.",
             note="Partial: index-range theorems for the evaluation routines are not yet in Lean (observed under sanitizers; the model's bit-exact agreement covers index arithmetic indirectly). Absence of UB is observed, not proved.",
             technique="Lean 4 proof (lookup totality incl. NaN) + sanitizer differential run", ref="4/C05"),
 "C04": dict(text="Lean theorems C04_searchAxis / C04_searchCenters (any linear order, any number of dimensions, any well-formed knot vector): lookup rejects exactly outside (first,last], always terminates, centre within [order, nknots-order-2] and bracketing; tied to the code by exact equality of searchcenters / tablesearchcenters / evaluator.searchcenters with the executable model on order-isomorphic integer keys, plus the theorem's right-hand side evaluated directly on the implementation's answers.",
             note="Trusted: Lean kernel; axioms propext/Classical.choice/Quot.sound; hand-written model of searchcenters validated differentially each run (not translated); doubles compared through an order-isomorphic integer key; uint32 arithmetic assumed not to wrap (nknots < 2^31).",
             technique="Lean 4 proof (binary-search invariant by induction on fuel) + differential correspondence model vs code", ref="4/C04"),
}
# checks delivered by builders: text comes from integration/<ID>.json; only the ids listed here are claimed
ENABLED_FROM_INTEGRATION = ["C06", "C07", "C08", "C09", "C10", "C11", "C12", "C13", "C14", "C15", "C16", "C17", "C18", "C19", "C20"]
for _p in ENABLED_FROM_INTEGRATION:
    _m = json.load(open(os.path.join(V, "integration", _p + ".json")))["manifest"]
    _tech = _m.get("technique", "proof")
    if len(_tech) < 12: _tech = "Lean 4 proof about an executable model + differential correspondence with the implementation"
    CHECKS[_p] = dict(text=_m["text"], note=_m["note"], technique=_tech, ref=_m.get("ref", "4/" + _p))
NA_REASON = "check not built yet in this round (model/theorems in progress); not claimed"
def main():
    checks = []
    for p in ALL:
        if p not in CHECKS: continue
        c = CHECKS[p]
        checks.append({"property_id": p,
                       "quick_cmd": "python3 bin/check.py %s --tier quick" % p,
                       "thorough_cmd": "python3 bin/check.py %s --tier thorough" % p,
                       "evidence_file": "/verif/evidence/%s.json" % p,
                       "replay_cmd_template": "python3 bin/check.py %s --replay {path}" % p,
                       "engine": "psv",
                       "level_claimed": {"category": "proof", "text": c["text"], "design_ref": c["ref"]},
                       "level_note": c["note"], "technique": c["technique"]})
    m = {"version": 1, "setup_cmd": "python3 bin/setup.py",
         "hooks": {"guard": "PHOTOSPLINE_VERIF", "enable": "harnesses compile /repo sources with -DPHOTOSPLINE_VERIF (no hook is currently needed: private access via #define, allocator template parameter, forced-include shims and libc interposition are used instead)",
                   "baseline_off_cmd": "bash bin/baseline_tests.sh", "source_commits": [], "add_only": True},
         "engines": [{"name": "psv", "path": "/verif/lean", "serves_properties": sorted(CHECKS), "kind_free_text": "Lean 4 model + theorems (lean/PsV), Mathlib-free compiled driver (psvdriver), C++ correspondence harnesses (harness/), runner bin/check.py"}],
         "checks": checks,
         "notes": "See DESIGN.md. known_findings.json lists recorded and fixed defects.",
         "not_applicable": [{"property_id": p, "reason": NA_REASON} for p in ALL if p not in CHECKS]}
    with open(os.path.join(V, "MANIFEST.json"), "w") as f: json.dump(m, f, indent=1)
    import jsonschema
    jsonschema.validate(m, json.load(open("/root/.vp/MANIFEST.schema.json")))
    print("MANIFEST.json written:", len(checks), "checks")
if __name__ == "__main__": main()
