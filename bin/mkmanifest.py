#!/usr/bin/env python3
"""Regenerates MANIFEST.json from the table below (kept in one place so it always validates)."""
import json, os
V = os.path.dirname(os.path.dirname(os.path.abspath(__file__)))
ALL = ["C%02d" % i for i in range(1, 21)]
CHECKS = {
 "C04": dict(text="Lean theorems C04_searchAxis / C04_searchCenters (any linear order, any number of dimensions, any well-formed knot vector): lookup rejects exactly outside (first,last], always terminates, centre within [order, nknots-order-2] and bracketing; tied to the code by exact equality of searchcenters / tablesearchcenters / evaluator.searchcenters with the executable model on order-isomorphic integer keys, plus the theorem's right-hand side evaluated directly on the implementation's answers.",
             note="Trusted: Lean kernel; axioms propext/Classical.choice/Quot.sound; hand-written model of searchcenters validated differentially each run (not translated); doubles compared through an order-isomorphic integer key; uint32 arithmetic assumed not to wrap (nknots < 2^31).",
             technique="Lean 4 proof (binary-search invariant by induction on fuel) + differential correspondence model vs code", ref="4/C04"),
}
NA_REASON = "check not built yet in this round (model/theorems in progress); not claimed"
def main():
    checks = []
    for p in ALL:
        if p not in CHECKS: continue
        c = CHECKS[p]
        checks.append({"property_id": p,
                       "quick_cmd": "python3 bin/check.py %s --tier quick" % p,
                       "thorough_cmd": "python3 bin/check.py %s --tier thorough" % p,
                       "evidence_file": "/verif/evidence/%s.json" % p,
                       "replay_cmd_template": "python3 bin/check.py %s --replay {path}" % p,
                       "engine": "psv",
                       "level_claimed": {"category": "proof", "text": c["text"], "design_ref": c["ref"]},
                       "level_note": c["note"], "technique": c["technique"]})
    m = {"version": 1, "setup_cmd": "python3 bin/setup.py",
         "hooks": {"guard": "PHOTOSPLINE_VERIF", "enable": "harnesses compile /repo sources with -DPHOTOSPLINE_VERIF (no hook is currently needed: private access via #define, allocator template parameter, forced-include shims and libc interposition are used instead)",
                   "baseline_off_cmd": "bash bin/baseline_tests.sh", "source_commits": [], "add_only": True},
         "engines": [{"name": "psv", "path": "/verif/lean", "serves_properties": sorted(CHECKS), "kind_free_text": "Lean 4 model + theorems (lean/PsV), Mathlib-free compiled driver (psvdriver), C++ correspondence harnesses (harness/), runner bin/check.py"}],
         "checks": checks,
         "notes": "See DESIGN.md. known_findings.json lists recorded and fixed defects.",
         "not_applicable": [{"property_id": p, "reason": NA_REASON} for p in ALL if p not in CHECKS]}
    with open(os.path.join(V, "MANIFEST.json"), "w") as f: json.dump(m, f, indent=1)
    import jsonschema
    jsonschema.validate(m, json.load(open("/root/.vp/MANIFEST.schema.json")))
    print("MANIFEST.json written:", len(checks), "checks")
if __name__ == "__main__": main()
