#!/usr/bin/env python3
"""MANIFEST.setup_cmd: build the Lean library (models, proofs, property theorems) and the driver, offline."""
import os, subprocess, sys, time
sys.path.insert(0, os.path.dirname(os.path.abspath(__file__)))
import psvlib
t0 = time.time()
gen = os.path.join(psvlib.VERIF, "tools", "gen_lean.py")
if os.path.exists(gen):
    r = subprocess.run([sys.executable, gen])
    if r.returncode != 0:
        print("setup: gen_lean failed"); sys.exit(1)
r = subprocess.run(["lake", "build"], cwd=psvlib.LEAN)
print("setup: lake build rc=%d in %.0fs" % (r.returncode, time.time() - t0))
sys.exit(r.returncode)
