#!/usr/bin/env python3
"""MANIFEST.setup_cmd: build the Lean library (models, proofs, property theorems) and the driver, offline."""
import os, subprocess, sys, time
sys.path.insert(0, os.path.dirname(os.path.abspath(__file__)))
import psvlib
t0 = time.time()
import glob
# regenerate every source-derived Lean file (translators fail closed; a failure here is reported by the check that owns it)
for gen in sorted(glob.glob(os.path.join(psvlib.VERIF, "tools", "gen_*.py"))):
    r = subprocess.run([sys.executable, gen], stdout=subprocess.PIPE, stderr=subprocess.STDOUT, text=True)
    print("setup: %s rc=%d %s" % (os.path.basename(gen), r.returncode, r.stdout.strip().splitlines()[-1][:160] if r.stdout.strip() else ""))
r = subprocess.run(["lake", "build"], cwd=psvlib.LEAN)
print("setup: lake build rc=%d in %.0fs" % (r.returncode, time.time() - t0))
if r.returncode != 0:
    # a property file that no longer builds is reported by the check of that property; setup only needs the driver
    r = subprocess.run(["lake", "build", "psvdriver"], cwd=psvlib.LEAN)
    print("setup: lake build psvdriver rc=%d" % r.returncode)
sys.exit(r.returncode)
