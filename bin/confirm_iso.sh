#!/bin/bash
# usage: bin/confirm_iso.sh <mutation_dir> <seed_id> <prop>
# Confirms a seeded change (test-suite, demonstration with/without) and runs the property's quick check against the
# changed tree from an ISOLATED copy of /verif (own Lean build directory, own generated files), so that runs against
# changed trees cannot disturb checks running in /verif itself (and vice versa). The copy is removed afterwards.
set -u
V="$(cd "$(dirname "$0")/.." && pwd)"
m=$1; id=$2; p=$3
c=/tmp/cv-$id
rm -rf "$c"; mkdir -p "$c"
rsync -a --exclude .git --exclude replays --exclude seeded "$V/" "$c/"
python3 "$V/bin/confirm_seeded.py" "$m" "$id" "$p" --check "python3 $c/bin/check.py $p --tier quick"
rm -rf "$c"
