#!/usr/bin/env python3
"""Confirm a seeded change delivered by an outside agent and file it under /verif/seeded/<id>/.

usage: confirm_seeded.py <mutation_dir> <seed_id> <property> [--check "<cmd>"]
In a scratch worktree of /repo (removed afterwards): the patch applies, the project's own test-suite still
passes with it, the demonstration fails with the change and passes without it.  Then (optionally) run the
property's quick check against the patched tree and record whether it reports the violation."""
import json, os, re, shutil, subprocess, sys, time

V = os.path.dirname(os.path.dirname(os.path.abspath(__file__)))

def sh(cmd, **kw):
    return subprocess.run(cmd, shell=isinstance(cmd, str), stdout=subprocess.PIPE, stderr=subprocess.STDOUT, text=True, **kw)

def build_cmd_from_demo(path, old_root, new_root, demo_dir):
    txt = open(path).read()
    lines = []
    for l in txt.splitlines()[:60]:
        m = re.match(r"\s*(?://|\*|#)\s?(.*)$", l)
        if m: lines.append(m.group(1).rstrip())
        elif lines: break
    joined, cur = [], ""
    for l in lines:
        if l.endswith("\\"): cur += l[:-1] + " "
        else: joined.append(cur + l); cur = ""
    cands = [l.strip() for l in joined if re.search(r"(?<!\w)(g\+\+|gcc|clang\+\+)(?![\w+])", l) and " -o" in l]
    if not cands: return None
    cmd = cands[0]
    if "$" in cmd or cmd.rstrip().endswith("done") or ";" in cmd or " -c " in cmd or "*.o" in cmd: return None   # part of a multi-line shell recipe: use the generic build
    cmd = cmd[re.search(r"(g\+\+|gcc|clang\+\+)", cmd).start():]
    cmd = cmd.replace(old_root + "/MUTATION", "@@MUT@@").replace(old_root, new_root).replace("@@MUT@@", os.path.dirname(demo_dir))
    return cmd

def main():
    mdir, sid, prop = sys.argv[1], sys.argv[2], sys.argv[3]
    check_cmd = sys.argv[5] if len(sys.argv) > 5 and sys.argv[4] == "--check" else None
    mdir = os.path.abspath(mdir)
    old_root = os.path.dirname(os.path.dirname(mdir))       # /tmp/mut/Cxx
    scratch = "/tmp/conf-%s" % sid
    res = {"at": time.strftime("%Y-%m-%d %H:%M:%S"), "repo_head": sh("git -C /repo rev-parse --short HEAD").stdout.strip()}
    sh("git -C /repo worktree remove --force %s" % scratch)
    r = sh("git -C /repo worktree add --detach %s HEAD" % scratch)
    try:
        r = sh("git apply --3way %s/patch.diff && git reset -q" % mdir, cwd=scratch)
        res["patch_applies"] = (r.returncode == 0)
        if r.returncode != 0:
            res["error"] = r.stdout[-500:]; raise SystemExit
        demo = [f for f in os.listdir(mdir) if f.startswith("demo.")]
        demo = os.path.join(mdir, "demo.sh" if "demo.sh" in demo else sorted(demo)[0])   # a shell recipe, when delivered, is the demonstration (it builds demo.cpp itself)
        # 1. test-suite with the change
        b = os.path.join(scratch, "_b")
        r1 = sh("cmake -G Ninja -S %s -B %s -DCMAKE_BUILD_TYPE=RelWithDebInfo -DCMAKE_CXX_FLAGS=-Wno-error -DCMAKE_C_FLAGS=-Wno-error && cmake --build %s -j8 --target photospline-test photospline-test-templated photospline-test-fit" % (scratch, b, b))
        res["builds_with_change"] = (r1.returncode == 0)
        r2 = sh("OPENBLAS_NUM_THREADS=2 ctest --test-dir %s -j8 --timeout 1800" % b)   # (BLAS threads limited: several confirmations run side by side)
        res["testsuite_with_change"] = "pass" if r2.returncode == 0 else "FAIL"
        res["testsuite_tail"] = r2.stdout[-300:]
        shutil.rmtree(b, ignore_errors=True)
        # 2. demo with / without
        if demo.endswith(".sh"):
            cmdw = None
        else:
            cmdw = build_cmd_from_demo(demo, old_root, scratch, mdir)
        res["demo_build_cmd"] = cmdw
        # a copy of the whole demo directory inside the scratch tree (relative paths in build recipes; shell demos run
        # there with the agent's worktree path replaced by the scratch one)
        shdir = os.path.join(scratch, "MUTATION", os.path.basename(mdir)); shutil.copytree(mdir, shdir)
        if cmdw is None and demo.endswith(".sh"):
            for fn in os.listdir(shdir):
                fp = os.path.join(shdir, fn)
                try:
                    txt = open(fp).read()
                    txt = txt.replace(old_root + "/MUTATION/" + os.path.basename(mdir), shdir).replace(old_root, scratch)
                    open(fp, "w").write(txt)
                except Exception: pass
        def generic_build():
            """fallback: build the demo against every library source of the scratch tree"""
            o = os.path.join(scratch, "_demo_o"); shutil.rmtree(o, ignore_errors=True); os.makedirs(o)
            F = "-O1 -g -w -I%s/include -I%s/src/fitter -I/usr/include/suitesparse -DPHOTOSPLINE_INCLUDES_SPGLAM" % (scratch, scratch)
            cmds = ["for f in %s/src/fitter/*.c; do gcc -std=gnu99 %s -c $f -o %s/$(basename $f).o || exit 1; done" % (scratch, F, o),
                    "for f in %s/src/core/*.cpp %s/src/cinter/splinetable.cpp; do g++ -std=c++11 %s -c $f -o %s/$(basename $f).o || exit 1; done" % (scratch, scratch, F, o)]
            if demo.endswith(".c"): cmds.append("gcc -std=gnu99 %s -c %s -o %s/demo_main.o" % (F, demo, o))
            else: cmds.append("g++ -std=c++11 -fno-access-control %s -c %s -o %s/demo_main.o" % (F, demo, o))
            wl = " ".join(sorted(set(re.findall(r"-Wl,[^\s\\]+", "\n".join(open(demo, errors="replace").read().splitlines()[:60])))))   # linker options the demo's own recipe asks for (e.g. --wrap)
            cmds.append("g++ %s/*.o %s -o %s/demo -lcfitsio -lcholmod -lspqr -lsuitesparseconfig -lopenblas -lpthread -lm -ldl" % (o, wl, o))
            rb = sh(" && ".join(cmds), cwd=scratch)
            return rb, os.path.join(o, "demo")
        def run_demo():
            if cmdw is None and not demo.endswith(".sh"):
                rb, exe = generic_build()
                if rb.returncode != 0: return rb
                try: return sh(exe, cwd=os.path.dirname(demo), timeout=900)
                except subprocess.TimeoutExpired:
                    class T: returncode = 124; stdout = "timeout"
                    return T()
            if cmdw is None:
                try: return sh("bash %s" % os.path.join(shdir, os.path.basename(demo)), cwd=shdir, timeout=900)
                except subprocess.TimeoutExpired:
                    class T: returncode = 124; stdout = "timeout"
                    return T()
            # a recipe that names its source relatively ("g++ … demo.cpp … -o demo1") is meant to run in the demo's own directory
            cwd = shdir if re.search(r"(?<![\w/.])demo\.(cpp|c)\b", cmdw) else scratch
            mo = re.search(r"-o\s+(\S+)", cmdw)
            exe = mo.group(1)
            if not os.path.isabs(exe): exe = os.path.join(cwd, exe)
            if os.path.dirname(exe): os.makedirs(os.path.dirname(exe), exist_ok=True)
            rb = sh(cmdw, cwd=cwd)
            if rb.returncode != 0: return rb
            try: return sh(exe, cwd=os.path.dirname(exe) or cwd, timeout=600)
            except subprocess.TimeoutExpired: return subprocess.CompletedProcess(exe, 124, "TIMEOUT", "")
        rw = run_demo()
        res["demo_with_change_rc"] = rw.returncode; res["demo_with_change_tail"] = rw.stdout[-400:]
        sh("git checkout -- .", cwd=scratch)
        ro = run_demo()
        res["demo_without_change_rc"] = ro.returncode; res["demo_without_change_tail"] = ro.stdout[-300:]
        # 3. the check against the patched tree
        if check_cmd:
            sh("git apply --3way %s/patch.diff && git reset -q" % mdir, cwd=scratch)
            e = dict(os.environ); e["PSV_REPO"] = scratch
            rc = sh(check_cmd, cwd=V, env=e)
            res["check_cmd"] = check_cmd; res["check_rc"] = rc.returncode
            res["check_reports_violation"] = ("VIOLATION property=%s" % prop) in rc.stdout
            res["check_tail"] = "\n".join([l for l in rc.stdout.splitlines() if "VIOLATION" in l or l.startswith("  ->") or l.startswith("[")][-6:])[:1500]
    finally:
        sh("git -C /repo worktree remove --force %s" % scratch)
        for f in os.listdir(mdir):
            if f in ("demo",) or f.endswith(".o"):
                try: os.remove(os.path.join(mdir, f))
                except Exception: pass
    res["confirmed"] = bool(res.get("patch_applies") and res.get("testsuite_with_change") == "pass" and res.get("demo_with_change_rc", 0) != 0 and res.get("demo_without_change_rc", 1) == 0)
    out = os.path.join(V, "seeded", sid); os.makedirs(out, exist_ok=True)
    for f in os.listdir(mdir):
        fp = os.path.join(mdir, f)
        if os.path.isfile(fp) and os.path.getsize(fp) < 300000 and f not in ("meta.json",) and not f.endswith((".o", ".log")) and not os.access(fp, os.X_OK):
            shutil.copy(fp, os.path.join(out, f))
    meta = {}
    try: meta = json.load(open(os.path.join(mdir, "meta.json")))
    except Exception: pass
    meta = {"breaks_property": prop, "agent_meta": meta, "confirmation_by_integrator": res}
    json.dump(meta, open(os.path.join(out, "meta.json"), "w"), indent=1)
    print(sid, json.dumps({k: res.get(k) for k in ("confirmed", "testsuite_with_change", "demo_with_change_rc", "demo_without_change_rc", "check_reports_violation")}))

if __name__ == "__main__": main()
