#!/bin/bash
# usage: bin/sweep.sh <tier> <seed> [ids…]   — every registered check against /repo, one summary line each
tier=${1:-quick}; seed=${2:-1}; shift 2
ids=${@:-C01 C02 C03 C04 C05 C06 C07 C08 C09 C10 C11 C12 C13 C14 C15 C16 C17 C18 C19 C20}
cd "$(dirname "$0")/.."
for p in $ids; do
  out=$(VERIF_SEED=$seed python3 bin/check.py $p --tier $tier 2>&1); rc=$?
  echo "$p rc=$rc $(echo "$out" | grep -c '^VIOLATION') violation-lines :: $(echo "$out" | tail -1 | cut -c1-160)"
done
