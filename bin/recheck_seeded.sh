#!/bin/bash
# usage: bin/recheck_seeded.sh <seed_id> [tier]      e.g. bin/recheck_seeded.sh C08-6
# Re-runs the property's check against the stored seeded change seeded/<id>/patch.diff, applied in a scratch worktree
# of /repo, from an ISOLATED copy of /verif (own Lean build directory, own evidence and replays), and records the result
# in seeded/<id>/meta.json (confirmation_by_integrator.check_* ; the first result is kept as first_check_*).
# Nothing in /repo or in /verif's evidence is touched. Copy and worktree are removed afterwards.
set -u
V="$(cd "$(dirname "$0")/.." && pwd)"
id=$1; tier=${2:-quick}; p=${3:-${id%%-*}}   # optional 3rd argument: run ANOTHER property's check against this change (result printed, meta.json untouched)
c=/tmp/cv-$id; w=/tmp/rw-$id
rm -rf "$c"; mkdir -p "$c"
rsync -a --exclude .git --exclude replays --exclude seeded "$V/" "$c/"
git -C /repo worktree remove --force "$w" >/dev/null 2>&1
git -C /repo worktree add --detach "$w" HEAD >/dev/null 2>&1 || { echo "cannot create worktree"; exit 2; }
( cd "$w" && git apply --3way "$V/seeded/$id/patch.diff" && git reset -q ) || { echo "$id: patch does not apply"; git -C /repo worktree remove --force "$w"; rm -rf "$c"; exit 2; }
out=$(cd "$c" && PSV_REPO="$w" python3 bin/check.py "$p" --tier "$tier" 2>&1); rc=$?
printf '%s' "$out" > "$c/out.txt"
if [ -n "${3:-}" ]; then echo "$id under the $p check: rc=$rc"; grep -E "VIOLATION|^  ->|^\[" "$c/out.txt" | tail -5 | cut -c1-400; git -C /repo worktree remove --force "$w"; rm -rf "$c"; exit 0; fi
python3 - "$V/seeded/$id/meta.json" "$p" "$rc" "$tier" "$c/out.txt" <<'E'
import json, sys, time
mf, prop, rc, tier, outf = sys.argv[1:6]
out = open(outf).read()
m = json.load(open(mf)); c = m.setdefault("confirmation_by_integrator", {})
if isinstance(c, str): c = m["confirmation_by_integrator"] = {"raw": c}
if "check_reports_violation" in c and "first_check_reports_violation" not in c:
    for k in ("check_cmd", "check_rc", "check_reports_violation", "check_tail"):
        if k in c: c["first_" + k] = c[k]
c["check_cmd"] = "python3 bin/check.py %s --tier %s (isolated copy, PSV_REPO=patched worktree)" % (prop, tier)
c["check_rc"] = int(rc)
c["check_reports_violation"] = ("VIOLATION property=%s" % prop) in out
c["check_tail"] = "\n".join([l for l in out.splitlines() if "VIOLATION" in l or l.startswith("  ->") or l.startswith("[")][-6:])[:1500]
c["rechecked_at"] = time.strftime("%Y-%m-%d %H:%M:%S")
json.dump(m, open(mf, "w"), indent=1)
print(mf.split("/")[-2], "rc=%s" % rc, "reports_violation=%s" % c["check_reports_violation"]); print(c["check_tail"][-600:])
E
git -C /repo worktree remove --force "$w"; rm -rf "$c"
